"""Checks of the text layer: C12 (Position::line_col / line_of), C13 (Span operations), C14 (Display of
Span / Position).

Tie T-text: the Lean model (PestTyped/Model/Text.lean, run by model_driver on `text …` case lines)
against pest-typed built from /repo's current working tree (harness/text_runner), on the same cases.
Oracles on the implementation: pest 2.7.14 (C12, C13), a specification-level recomputation in this file
(C12), and an independent renderer inside the runner plus "no panic" (C14).

The enumeration is exhaustive over each property's own quantifier (all strings up to a length over
the property's alphabet x all offsets / spans / sub-ranges / span pairs); bulky observables travel as
FNV-1a-64 digests and are re-run verbosely only when two sides disagree."""
import concurrent.futures, os, random, shutil, subprocess
from . import common
from .common import BUILD, LEAN, VERIF, sh

RUNNER_DIR = os.path.join(VERIF, "harness", "text_runner")
TARGET = os.path.join(BUILD, "target")
RUNNER = os.path.join(TARGET, "debug", "text_runner")
DRIVER = os.path.join(LEAN, ".lake", "build", "bin", "model_driver")
NPROC = min(16, os.cpu_count() or 4)


# ---------------------------------------------------------------------------------------------
# plumbing

def hexs(s):
    b = s.encode("utf-8")
    return b.hex() if b else "-"


def unhex(h):
    return "" if h == "-" else bytes.fromhex(h).decode("utf-8")


def build_runner():
    """Builds harness/text_runner against /repo's CURRENT working tree (cargo is incremental)."""
    shutil.copyfile("/repo/Cargo.lock", os.path.join(RUNNER_DIR, "Cargo.lock"))
    env = dict(os.environ, CARGO_NET_OFFLINE="true", CARGO_TARGET_DIR=TARGET, CARGO_INCREMENTAL="0")
    p = sh(["cargo", "build", "--offline", "-q"], cwd=RUNNER_DIR, env=env)
    if p.returncode != 0:
        # the source-included copy (custom FormatOption) may stop compiling after a change in /repo:
        # fall back to the public API only (the runner then reports opt=default-only)
        p2 = sh(["cargo", "build", "--offline", "-q", "--no-default-features"], cwd=RUNNER_DIR, env=env)
        if p2.returncode != 0:
            raise RuntimeError("text_runner does not build:\n" + p.stderr[-3000:])
    p = sh(["lake", "build", "model_driver"], cwd=LEAN)
    if p.returncode != 0:
        raise RuntimeError("model_driver does not build:\n" + (p.stdout + p.stderr)[-3000:])


def run_lines(cmd, lines, nproc=NPROC):
    """Feeds the case lines to `nproc` copies of the process, returns one output line per case."""
    if not lines:
        return []
    k = max(1, min(nproc * 4, len(lines) // 200 + 1))
    size = (len(lines) + k - 1) // k
    chunks = [lines[i:i + size] for i in range(0, len(lines), size)]

    def run(chunk):
        p = subprocess.run(cmd, input="\n".join(chunk) + "\n", capture_output=True, text=True)
        got = p.stdout.split("\n")
        if got and got[-1] == "":
            got.pop()
        got += ["v=missing"] * (len(chunk) - len(got))
        return got[:len(chunk)]
    out = []
    with concurrent.futures.ThreadPoolExecutor(nproc) as ex:
        for res in ex.map(run, chunks):
            out.extend(res)
    return out


def obs(line):
    d = {}
    for kv in line.split("\t"):
        if "=" in kv:
            k, v = kv.split("=", 1)
            d[k] = v
    return d


def strings(alpha, n):
    res = [""]
    fr = [""]
    for _ in range(n):
        fr = [s + c for s in fr for c in alpha]
        res += fr
    return res


def boundaries(s):
    out = [0]
    o = 0
    for c in s:
        o += len(c.encode("utf-8"))
        out.append(o)
    return out


def spans_of(s):
    bs = boundaries(s)
    return [(a, b) for a in bs for b in bs if b >= a]


def violation(ctx, what, case, **detail):
    """Text cases are dicts (input, offset / span), not the 7-tuples of the grammar suites."""
    ctx.violations.append({"what": what, "case": case, **detail})


def show(s):
    return s.encode("unicode_escape").decode("ascii")


def tie(ctx, name, cases, impl, model, keys, describe):
    """Model vs implementation on the `t.*` observables."""
    bad = []
    for c, i, m in zip(cases, impl, model):
        diff = [k for k in keys if i.get(k) != m.get(k)]
        if diff:
            bad.append((c, diff, i, m))
    ctx.ties[name] = {"cases": len(cases), "agree": len(cases) - len(bad), "observables": keys}
    if bad:
        ctx.tie_broken(name, {"disagreements": len(bad), "first": [describe(c, d, i, m) for c, d, i, m in bad[:5]]})
    return len(bad)


def first_diff(xs, ys):
    for k, (x, y) in enumerate(zip(xs, ys)):
        if x != y:
            return k
    return min(len(xs), len(ys)) if len(xs) != len(ys) else None


# ---------------------------------------------------------------------------------------------
# C12

C12_ALPHA = ["\n", "\r", "a", "é", "中", "\U0001F600"]


def spec_line_col(b, p):
    """(1 + number of LF before p, 1 + characters since the last LF)."""
    pre = b[:p]
    return pre.count(b"\n") + 1, len(pre[pre.rfind(b"\n") + 1:].decode("utf-8")) + 1


def spec_line_of(b, p):
    """The maximal LF-terminated (or final) segment containing p; end of input is in the last one."""
    start = b.rfind(b"\n", 0, p) + 1
    e = b.find(b"\n", p)
    return start, (e + 1 if e >= 0 else len(b))


def check_C12(ctx):
    n = 6 if ctx.tier == "quick" else 7
    nrand = 300 if ctx.tier == "quick" else 3000
    ctx.rule_text = (f"T-text: all strings of length <= {n} over {{LF, CR, 'a', 2-byte, 3-byte, 4-byte char}} x every byte "
                     f"offset 0..len+1 (Position::new) and every boundary offset (line_col, line_of), plus {nrand} seeded random "
                     "texts of 20..400 characters with frequent CR/LF; an evaluation is one (string, offset) pair; non-trivial "
                     "when the string contains a line break and the offset is not 0")
    build_runner()
    ins = strings(C12_ALPHA, n)
    rnd = random.Random(ctx.seed)
    weights = [4, 3, 6, 2, 2, 1]
    ins += ["".join(rnd.choices(C12_ALPHA, weights)[0] for _ in range(rnd.randint(20, 400))) for _ in range(nrand)]
    lines = ["text c12 " + hexs(s) for s in ins]
    impl = [obs(l) for l in run_lines([RUNNER], lines)]
    model = [obs(l) for l in run_lines([DRIVER], lines)]
    keys = ["t.new", "t.lc", "t.lo"]
    tie(ctx, "T-text:position", ins, impl, model, keys,
        lambda s, d, i, m: {"input": show(s), "keys": d, "impl": {k: i.get(k) for k in d}, "model": {k: m.get(k) for k in d}})
    names = {"new": "Position::new", "lc": "line_col", "lo": "line_of"}
    for s, io in zip(ins, impl):
        b = s.encode("utf-8")
        bs = boundaries(s)
        ctx.evaluations += len(b) + 2 + 2 * len(bs)
        if "\n" in s or "\r" in s:
            ctx.nontrivial += 2 * (len(bs) - 1)
        if "t.lc" not in io:
            violation(ctx, "C12 runner gave no answer", {"input": show(s)}, got=io)
            continue
        if len(ctx.samples) < 5 and len(s) == n and "\r\n" in s:
            ctx.samples.append({"case": {"input": show(s)}, "impl": {k: io.get(k) for k in keys}})
        for f in ("new", "lc", "lo"):
            t, p = io.get("t." + f, ""), io.get("p." + f, "")
            if t != p:
                if f == "new":
                    k = first_diff(t, p)
                    violation(ctx, "C12 Position::new differs from pest", {"input": show(s), "offset": k},
                              typed=t[k:k + 1], pest=p[k:k + 1])
                else:
                    tl, pl = t.split(","), p.split(",")
                    k = first_diff(tl, pl)
                    violation(ctx, f"C12 {names[f]} differs from pest", {"input": show(s), "offset": bs[k] if k < len(bs) else None},
                              typed=tl[k] if k < len(tl) else None, pest=pl[k] if k < len(pl) else None)
        # specification-level recomputation (independent of pest and of the model)
        want_new = "".join("1" if (q <= len(b) and (q == len(b) or (b[q] & 0xC0) != 0x80)) else "0" for q in range(len(b) + 2))
        if io["t.new"] != want_new:
            k = first_diff(io["t.new"], want_new)
            violation(ctx, "C12 Position::new is not 'Some exactly on character boundaries'", {"input": show(s), "offset": k},
                      typed=io["t.new"][k:k + 1], expected=want_new[k:k + 1])
        lc, lo = io["t.lc"].split(","), io["t.lo"].split(",")
        for k, q in enumerate(bs):
            if lc[k] == "P" or lo[k] == "P":
                violation(ctx, "C12 line_col / line_of panics on a boundary offset", {"input": show(s), "offset": q},
                          line_col=lc[k], line_of=lo[k])
                continue
            wl, wc = spec_line_col(b, q)
            if lc[k] != f"{wl}:{wc}":
                violation(ctx, "C12 line_col differs from the specification", {"input": show(s), "offset": q},
                          typed=lc[k], expected=f"{wl}:{wc}")
            ws, we = spec_line_of(b, q)
            if lo[k] != f"{ws}:{we}":
                violation(ctx, "C12 line_of differs from the specification", {"input": show(s), "offset": q},
                          typed=lo[k], expected=f"{ws}:{we}")
    ctx.coverage["strings"] = len(ins)


# ---------------------------------------------------------------------------------------------
# C13

C13_ALPHA = ["\n", "\r", "a", "é", "中"]
C13_FIELDS = [("new", "Span::new"), ("str", "as_str"), ("split", "split/start/end"), ("lines", "lines"),
              ("ls", "lines_span"), ("get", "get"), ("merge", "merge_spans")]


def c13_evals(s):
    nb = len(s.encode("utf-8"))
    sp = spans_of(s)
    per = sum(4 * (b - a + 2) ** 2 + 4 * (b - a + 2) + 1 for a, b in sp)
    return (nb + 2) ** 2 + 4 * len(sp) + per + len(sp) ** 2


def c13_locate(s, field, xs, ys):
    """Which span / range / pair is the first differing entry of a verbose field?"""
    sp = spans_of(s)
    nb = len(s.encode("utf-8"))
    if field == "new":
        k = first_diff(xs, ys)
        return {"start": k // (nb + 2), "end": k % (nb + 2)}, xs[k:k + 1], ys[k:k + 1]
    if field == "merge":
        xl, yl = xs.split(","), ys.split(",")
        k = first_diff(xl, yl)
        return {"a": list(sp[k // len(sp)]), "b": list(sp[k % len(sp)])}, xl[k], yl[k]
    xl, yl = xs.split(";"), ys.split(";")
    k = first_diff(xl, yl)
    if k is None or k >= len(sp):
        return {"span": None}, xs[:200], ys[:200]
    a, b = sp[k]
    if field != "get":
        return {"span": [a, b]}, xl[k], yl[k]
    gx, gy = xl[k].split(","), yl[k].split(",")
    j = first_diff(gx, gy)
    idx = 0
    L = b - a
    for lo in "ieu":
        for hi in "ieu":
            for x in ([0] if lo == "u" else range(L + 2)):
                for y in ([0] if hi == "u" else range(L + 2)):
                    if idx == j:
                        rng = {"i": f"Included({x})", "e": f"Excluded({x})", "u": "Unbounded"}[lo] + ", " + \
                              {"i": f"Included({y})", "e": f"Excluded({y})", "u": "Unbounded"}[hi]
                        return {"span": [a, b], "range": rng}, gx[j], gy[j]
                    idx += 1
    return {"span": [a, b]}, None, None


def check_C13(ctx):
    n = 5 if ctx.tier == "quick" else 6
    ctx.rule_text = (f"T-text: all strings of length <= {n} over {{LF, CR, 'a', 2-byte, 3-byte char}} x all (start, end) in "
                     "0..len+1 (Span::new) x every valid span (as_str, split/start/end, lines, lines_span) x all nine bound forms "
                     "(Included/Excluded/Unbounded start and end) with both offsets in 0..span_len+1 (get) x all ordered pairs of "
                     "valid spans (merge_spans); an evaluation is one call; non-trivial strings contain a line break or a "
                     "multi-byte character")
    build_runner()
    ins = strings(C13_ALPHA, n)
    lines = [f"text c13 {hexs(s)} d" for s in ins]
    impl = [obs(l) for l in run_lines([RUNNER], lines)]
    model = [obs(l) for l in run_lines([DRIVER], lines)]
    keys = ["t." + f for f, _ in C13_FIELDS]

    def verbose(s):
        line = [f"text c13 {hexs(s)} v"]
        return obs(run_lines([RUNNER], line)[0]), obs(run_lines([DRIVER], line)[0])

    def describe(s, d, i, m):
        vi, vm = verbose(s)
        k = d[0]
        where, x, y = c13_locate(s, k[2:], vi.get(k, ""), vm.get(k, ""))
        return {"input": show(s), "keys": d, "first": {"field": k, **where, "impl": x, "model": y}}
    tie(ctx, "T-text:span", ins, impl, model, keys, describe)
    reported = 0
    for s, io in zip(ins, impl):
        ev = c13_evals(s)
        ctx.evaluations += ev
        if any(ord(c) > 127 or c in "\r\n" for c in s):
            ctx.nontrivial += ev
        if "t.get" not in io:
            violation(ctx, "C13 runner gave no answer", {"input": show(s)}, got=io)
            continue
        if io.get("t.np") != "0":
            vi, _ = verbose(s)
            f = next((f for f, _ in C13_FIELDS if "P" in vi.get("t." + f, "").replace(";", ",").split(",") or "P" in vi.get("t.new", "")), "?")
            violation(ctx, "C13 a Span operation panics", {"input": show(s), "operation": f}, panics=io.get("t.np"))
        for f, name in C13_FIELDS:
            if io.get("t." + f) != io.get("p." + f):
                vi, _ = verbose(s) if reported < 50 else (None, None)
                reported += 1
                if vi:
                    where, x, y = c13_locate(s, f, vi.get("t." + f, ""), vi.get("p." + f, ""))
                    violation(ctx, f"C13 {name} differs from pest", {"input": show(s), **where}, typed=x, pest=y)
                else:
                    violation(ctx, f"C13 {name} differs from pest", {"input": show(s)})
    for s in ("a\nb\nc", "中\n\r\na"):
        vi, _ = verbose(s)
        ctx.samples.append({"case": {"input": show(s)}, "impl": {k: vi.get(k, "")[:160] for k in ("t.new", "t.lines", "t.ls", "t.merge")}})
    ctx.coverage["strings"] = len(ins)


# ---------------------------------------------------------------------------------------------
# C14

C14_ALPHA = ["\n", "\r", "\t", "a", "中", "é"]
# Verdicts of the runner's oracle -> `what` strings, one per defect class.  The first two classes were
# repaired in /repo (F-FMT-1, F-FMT-2): they are REQUIRED to be right now, a regression of either is an
# unlisted violation under exactly these strings.  Only the last one (F-FMT-3) is a known finding.
C14_WHAT = {
    "panic-empty-input": "C14 display of empty input panics",
    "panic": "C14 display panics on non-empty input",
    "nothing-at-end-of-input": "C14 position at end of input renders nothing",
    "from-previous-line": "C14 span starting on the first byte of a later line is drawn from the previous line",
}


def c14_what(kind, cls):
    if cls in C14_WHAT:
        return C14_WHAT[cls]
    return f"C14 {kind} display wrong: {cls[4:] if cls.startswith('bad:') else cls}"


def check_C14(ctx):
    n = 5 if ctx.tier == "quick" else 6
    nlong = 400 if ctx.tier == "quick" else 4000
    ctx.rule_text = (f"T-text: all strings of length <= {n} over {{LF, CR, TAB, 'a', wide CJK, 2-byte letter}} (the empty string "
                     f"included) x all valid spans and all boundary positions, plus {nlong} seeded texts of 6..16 lines (more than "
                     "five lines, two-digit line numbers); Display (default option, real crate) and display() with a bracketing "
                     "FormatOption (source-included copy, the type is not exported); an evaluation is one rendering; non-trivial "
                     "when the input has more than one line or a control / wide character")
    build_runner()
    wt = obs(run_lines([RUNNER], ["text w " + hexs("".join(C14_ALPHA) + "0123456789 |^v.")])[0]).get("w", "")
    ins = strings(C14_ALPHA, n)
    rnd = random.Random(ctx.seed)
    for _ in range(nlong):
        nl = rnd.randint(6, 16)
        ins.append("".join("".join(rnd.choice(C14_ALPHA[1:]) for _ in range(rnd.randint(0, 3))) + "\n" for _ in range(nl))
                   + rnd.choice(["", "a", "中\t"]))
    lines = [f"text c14 {hexs(s)} d {wt}" for s in ins]
    impl = [obs(l) for l in run_lines([RUNNER], lines)]
    model = [obs(l) for l in run_lines([DRIVER], lines)]
    keys = ["t.sd", "t.sb", "t.pd", "t.pb"]
    custom = all(io.get("opt") == "custom" for io in impl)
    if not custom:
        keys = ["t.sd", "t.pd"]
        ctx.assumptions.append("custom FormatOption not reachable (source inclusion failed): only the default option was run")

    def verbose(s):
        line = [f"text c14 {hexs(s)} v {wt}"]
        return obs(run_lines([RUNNER], line)[0]), obs(run_lines([DRIVER], line)[0])

    def describe(s, d, i, m):
        vi, vm = verbose(s)
        k = d[0]
        xl, yl = vi.get(k, "").split(","), vm.get(k, "").split(",")
        j = first_diff(xl, yl)
        what = spans_of(s)[j] if k in ("t.sd", "t.sb") else boundaries(s)[j]
        dec = lambda h: h if h in ("panic", None) else show(unhex(h))
        return {"input": show(s), "keys": d, "first": {"field": k, "at": what, "impl": dec(xl[j]), "model": dec(yl[j])}}
    tie(ctx, "T-text:display", ins, impl, model, keys, describe)
    nonadd = [show(s) for s, io in zip(ins, impl) if io.get("wadd") != "1"]
    ctx.ties["T-text:width-additive"] = {"cases": len(ins), "agree": len(ins) - len(nonadd), "observables": ["wadd"]}
    if nonadd:
        ctx.tie_broken("T-text:width-additive", {"disagreements": len(nonadd), "first": nonadd[:5]})
    detailed = {}
    for s, io in zip(ins, impl):
        sp, bs = spans_of(s), boundaries(s)
        ctx.evaluations += 2 * (len(sp) + len(bs))
        if s.count("\n") and not s.endswith("\n") or s.count("\n") > 1 or any(c in "\r\t中" for c in s):
            ctx.nontrivial += 2 * (len(sp) + len(bs))
        if "cls.s" not in io:
            violation(ctx, "C14 runner gave no answer", {"input": show(s)}, got=io)
            continue
        cs, cp = io["cls.s"].split(","), io["cls.p"].split(",")
        for kind, classes, items in (("span", cs, sp), ("position", cp, bs)):
            for cls, it in zip(classes, items):
                if cls == "ok":
                    continue
                what = c14_what(kind, cls)
                case = {"input": show(s), "span": list(it)} if kind == "span" else {"input": show(s), "offset": it}
                extra = {}
                if detailed.get(what, 0) < 3:
                    detailed[what] = detailed.get(what, 0) + 1
                    vi, _ = verbose(s)
                    k = items.index(it)
                    h = vi.get("t.sd" if kind == "span" else "t.pd", "").split(",")[k]
                    extra["rendered"] = h if h == "panic" else unhex(h)
                violation(ctx, what, case, **extra)
    for s in ("ab\ncd", "中\ta\r\nb"):
        vi, _ = verbose(s)
        ctx.samples.append({"case": {"input": show(s), "span": list(spans_of(s)[1])},
                            "impl": {"rendered": unhex(vi.get("t.sd", "-").split(",")[1]) if vi.get("t.sd") else None}})
    ctx.coverage["strings"] = len(ins)
    ctx.coverage["custom_format_option"] = custom
