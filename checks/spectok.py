"""C02: the right-hand side of `C02_tree` — `specTokPartial` / `pruneAtomic` of lean/PestTyped/Model/SpecTokens.lean, the
Lean statement of what pest's generated parser pushes on its token queue — EXECUTED (driver command `spectok`,
lean/Driver/SpecTok.lean) and compared with pest itself on every T-run case for which pest gives a forest.

Tie `Spec-tokens-vs-pest`: on every `parse_partial` / whole-string case where pest_derive's parser of the same grammar
returned (no panic), the grammar is stack-free (pest is a valid reference: the condition `threeway` uses for verdicts)
and pest's verdict / end offset equals the Spec's, the forest `specTok` computes must equal pest's forest EXACTLY
(rule, start, end, children in order at every depth — also below `@` / `$` tokens, which the typed tree prunes).  A
disagreement is a broken REFERENCE (the model of pest is wrong), never an implementation verdict.

Tie `prune-python-vs-lean`: `props.prune` (python) of pest's forest against the Lean `pruneAtomic` of the `specTok`
forest, same cases.  The Lean one is the authority of the token oracle (`threeway(..., lean_tokens=…)`), the python one
only this cross-check.

Entry forms:
  * non-silent entry rule, `parse_partial`: pest's `Parser::parse(Rule::r, input)` (prefix parse) — verdict, end, forest;
  * silent entry rule: the same call; pest returns the forest of the children but no end offset (`pest=silent:…`,
    harness/corpus.py), so verdict and forest are compared, the end offset is not;
  * `parse` (full) entry: pest has no full entry point; `C02_tree_full` equates the tree of `try_parse` with the pruned
    forest of the SAME `specTokPartial` run, so the reference of a successful full parse is the pest forest of the
    `parse_partial` sibling case (same grammar, rule, input);
  * pest panics (its stack underflows): no pest reference; counted in coverage (`no_pest_reference_panic`).
The driver output is cached next to the suite rows (same content key: /repo sources, Model/, Driver/, corpus, seed)."""
import concurrent.futures, json, os, subprocess, time
from . import suites
from .suites import DRIVER, case_line, parse_obs


def _run_driver(sexp_path, uni, cases, nproc=16):
    chunks = [cases[i::nproc] for i in range(nproc)]

    def run(chunk):
        if not chunk:
            return []
        p = subprocess.run([DRIVER, sexp_path, uni], input="\n".join("spectok " + case_line(c) for c in chunk) + "\n",
                           capture_output=True, text=True)
        return p.stdout.splitlines()
    out = [None] * len(cases)
    with concurrent.futures.ThreadPoolExecutor(nproc) as ex:
        for k, res in enumerate(ex.map(run, chunks)):
            for j, l in enumerate(res):
                out[k + j * nproc] = l
    return [o if o is not None else "v=missing" for o in out]


def lean_forests(res):
    """{(gid, rule, input): {spec, stok, sprune}} for every whole-string `parse_partial` case of the suite that the Spec
    accepts (`spec=ok:…` in the model's row; a rejected case has no forest): the Lean `specTokPartial` run of the driver
    (cached in the suite's directory)."""
    idx = [k for k, c in enumerate(res.cases) if c[2] == "parse_partial" and c[3] == "str" and "\tspec=ok:" in res.model[k]]
    path = os.path.join(res.dir, "spectok.txt")
    lines = None
    if os.path.exists(path):
        lines = open(path).read().split("\n")[:len(idx)]
        if len(lines) != len(idx) or any(l == "v=missing" for l in lines):
            lines = None
    if lines is None:
        suites.ensure_driver()
        sexp = res.dir + ".sexp"
        if not os.path.exists(sexp):      # (files directly under build/cache are garbage-collected by age)
            sexp = os.path.join(res.dir, "grammars.sexp")
            open(sexp, "w").write("\n".join(g["sexp"] for g in res.grammars.values()) + "\n")
        lines = _run_driver(sexp, suites.uni_table_for(sexp), [res.cases[k] for k in idx])
        tmp = path + f".{os.getpid()}.tmp"
        open(tmp, "w").write("\n".join(lines) + "\n")
        os.replace(tmp, path)
    out = {}
    for k, l in zip(idx, lines):
        c = res.cases[k]
        out[(c[0], c[1], c[6])] = parse_obs(l)
    return out


def split_pest(pest):
    """`pest=` observable -> (silent entry?, verdict, end or None, forest text or None); verdict `panic` when pest panicked."""
    silent = pest.startswith("silent:")
    if silent:
        pest = pest[len("silent:"):]
    if pest == "panic":
        return silent, "panic", None, None
    if pest.startswith("ok:"):
        _, end, forest = pest.split(":", 2)
        return silent, "ok", (None if silent else end), forest
    return silent, "fail", None, None


def tie_spectok(ctx, res):
    """Runs the ties described in the module docstring; returns `lean_forests(res)` for the token oracle."""
    from .props import parse_tokens, prune, case_dict, fws_case
    t0 = time.time()
    lean = lean_forests(res)
    st = {"compared": 0, "agree": 0, "compared_silent_entry": 0, "compared_below_atomic": 0, "nonempty_forest": 0,
          "both_fail": 0, "no_pest_reference_panic": 0, "no_pest_reference_not_run": 0, "stack_grammar_not_reference": 0,
          "stack_grammar_forest_differs": 0, "verdict_or_end_differs": 0, "spec_oof": 0,
          "full_entry_compared": 0, "full_entry_no_pest_reference": 0}
    pr = {"cases": 0, "agree": 0}
    diffs, pdiffs, forget_diffs, bad_lines = [], [], [], 0
    pest_forest = {}                      # (gid, rule, input) -> pest's forest (text) where pest is a valid reference and agrees with the Spec
    atomic_of = {}
    for c, io, mo in res.rows():
        if c[2] != "parse_partial" or c[3] != "str":
            continue
        key = (c[0], c[1], c[6])
        lo = lean.get(key)
        if lo is None:
            lo = {"spec": mo["spec"]} if mo.get("spec") in ("fail", "oof") else {}
        spec = lo.get("spec")
        if spec is None:
            bad_lines += 1
            continue
        if "spec" in mo and mo["spec"] != spec:
            forget_diffs.append({"case": case_dict(c), "spec": mo["spec"], "specTok": spec})   # C02_specTok_forget says: impossible
        pest = io.get("pest")
        if pest is None:
            st["no_pest_reference_not_run"] += 1
            continue
        silent, pv, pend, pforest = split_pest(pest)
        if pv == "panic":
            st["no_pest_reference_panic"] += 1
            continue
        if spec == "oof":
            st["spec_oof"] += 1
            continue
        ginfo = res.grammars[c[0]]
        sp = spec.split(":", 2)
        sv, send = ("ok", sp[1]) if sp[0] == "ok" else ("fail", None)
        same = pv == sv and (silent or pend == send)
        if ginfo.get("uses_stack"):
            # pest's mutable stack: not a reference (C01 counts the verdict differences as pest_ne_spec_stack)
            st["stack_grammar_not_reference"] += 1
            if same and sv == "ok" and parse_tokens(pforest) != parse_tokens(lo.get("stok", "")):
                st["stack_grammar_forest_differs"] += 1
            continue
        if not same:
            st["verdict_or_end_differs"] += 1      # reported by `threeway` (tie Spec-vs-pest), nothing to compare here
            continue
        if sv != "ok":
            st["both_fail"] += 1
            continue
        st["compared"] += 1
        if silent:
            st["compared_silent_entry"] += 1
        ptoks = parse_tokens(pforest)
        stoks = parse_tokens(lo.get("stok", ""))
        if ptoks:
            st["nonempty_forest"] += 1
        if ptoks == stoks and "stok" in lo:
            st["agree"] += 1
            pest_forest[key] = pforest
        elif len(diffs) < 20:
            diffs.append({"case": case_dict(c), "pest": pforest[:400], "specTok": lo.get("stok", "")[:400]})
        else:
            diffs.append(None)
        # python prune vs Lean pruneAtomic
        if c[0] not in atomic_of:
            atomic_of[c[0]] = {n for n, k in ginfo["rules"] if k in ("atomic", "compound")}
        pp = prune(ptoks, atomic_of[c[0]])
        if pp != ptoks:
            st["compared_below_atomic"] += 1
        pr["cases"] += 1
        if pp == parse_tokens(lo.get("sprune", "")) and "sprune" in lo:
            pr["agree"] += 1
        elif ptoks == stoks and len(pdiffs) < 20:     # (a forest difference is already reported above)
            pdiffs.append({"case": case_dict(c), "python_prune_of_pest": pp, "lean_pruneAtomic": lo.get("sprune", "")[:400]})
    # full entries: the tree of a successful `try_parse` against the pest forest of the sibling prefix case
    for c, io, mo in res.rows():
        if c[2] != "parse" or c[3] != "str" or io.get("v") != "ok":
            continue
        key = (c[0], c[1], c[6])
        if key not in pest_forest:
            st["full_entry_no_pest_reference"] += 1
            continue
        st["full_entry_compared"] += 1
        ginfo = res.grammars[c[0]]
        exp = prune(parse_tokens(pest_forest[key]), atomic_of[c[0]])
        ctx.count(c, io.get("tok", "[]") != "[]")
        if parse_tokens(io.get("tok", "[]")) != exp:
            fwst = fws_case(ginfo, c[1], tokens=True)
            ctx.violation("token tree differs from pest's pruned tree" + (" [skip rule not atomic]" if fwst else ""), c,
                          impl=io.get("tok"), expected=pest_forest[key], fws=fwst, entry="try_parse (full): reference = pest's forest of the same rule on the same input")
    ndiff = len(diffs)
    ctx.ties["Spec-tokens-vs-pest"] = {"cases": st["compared"], "agree": st["agree"],
                                       "observables": ["specTok forest (unpruned) == pest forest"]}
    ctx.ties["prune-python-vs-lean"] = {"cases": pr["cases"], "agree": pr["agree"],
                                        "observables": ["props.prune(pest forest) == pruneAtomic(specTok forest)"]}
    if forget_diffs:
        ctx.tie_broken("Spec-tokens-vs-pest", {"error": "driver: spec and specTok.forget answer differently (C02_specTok_forget proves them equal)",
                                               "disagreements": len(forget_diffs), "first": forget_diffs[:5]})
    if bad_lines:
        ctx.tie_broken("Spec-tokens-vs-pest", {"error": f"{bad_lines} cases without an answer of the driver's spectok command"})
    if ndiff:
        ctx.tie_broken("Spec-tokens-vs-pest", {"disagreements": ndiff, "first": [d for d in diffs if d][:5],
                                               "note": "the Lean reference of pest's token queue (specTok) disagrees with pest on a stack-free grammar where "
                                                       "verdict and end agree: BROKEN REFERENCE (Model/SpecTokens.lean), nothing is shown about the implementation"})
    if pr["cases"] - pr["agree"] - ndiff > 0 or pdiffs:
        ctx.tie_broken("prune-python-vs-lean", {"disagreements": pr["cases"] - pr["agree"], "first": pdiffs[:5]})
    st["wall_s"] = round(time.time() - t0, 1)
    ctx.coverage.setdefault("distribution", {})["spec_tokens_vs_pest"] = st
    return lean
