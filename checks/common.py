"""Shared infrastructure of the checks: Lean obligations + axiom audit, suite runs with a
content-addressed cache (keyed by the current /repo sources, the harness, tier and seed), evidence
and replay files, known findings."""
import hashlib, json, os, re, subprocess, sys, time

VERIF = os.path.dirname(os.path.dirname(os.path.abspath(__file__)))
LEAN = os.path.join(VERIF, "lean")
BUILD = os.path.join(VERIF, "build")
CACHE = os.path.join(BUILD, "cache")
REPLAYS = os.path.join(VERIF, "replays")
EVIDENCE = os.path.join(VERIF, "evidence")
sys.path.insert(0, os.path.join(VERIF, "harness"))

ALLOWED_AXIOMS = {"propext", "Quot.sound", "Classical.choice"}
FORBIDDEN = re.compile(r"\bsorry\b|\badmit\b|^\s*(?:@\[[^\]]*\]\s*)?(?:private\s+|protected\s+|noncomputable\s+)*axiom\s|native_decide|bv_decide|implemented_by|\bunsafe |maxHeartbeats 0|@\[\s*extern|@\[\s*csimp|^\s*(?:private\s+|protected\s+)?opaque\s", re.M)
# in the library (everything a theorem can mention) `partial def` is forbidden too; the Driver (never used in a proof)
# may use `partial def` for its printers and parsers
FORBIDDEN_LIB = re.compile(r"\bpartial\s+def\b")

TRUSTED_BASE = [
    "Lean 4.33 kernel; axioms allowed: propext, Quot.sound, Classical.choice (audited with #print axioms on every run)",
    "hand-written Lean model of main/ and generator/ (PestTyped/Model/*.lean), tied to /repo by differential execution on every run",
    "correspondence harness: corpus.py / rawgen.py generators, Rust runners (harness/common), Lean model_driver, differ in checks/",
    "external, modelled not verified: pest 2.7.14 (Stack, Position/Span as oracle, generated parser as oracle), pest_meta 2.7.14 (grammar parser, validator, optimizer: their output is the model's input), Rust core/alloc, rustc + macro expansion",
]


def sh(cmd, cwd=None, env=None, timeout=None, input=None):
    return subprocess.run(cmd, cwd=cwd, env=env, capture_output=True, text=True, timeout=timeout, input=input)


# ---------------------------------------------------------------------------------------------
# Lean side

def props_index():
    return json.load(open(os.path.join(VERIF, "props_index.json")))


def strip_comments(src):
    # remove /- ... -/ (nested once is enough here) and -- line comments
    src = re.sub(r"/-.*?-/", "", src, flags=re.S)
    src = re.sub(r"--.*", "", src)
    return src


def lean_obligations(pid, tier="quick"):
    """Builds the property's module, audits axioms of every listed theorem.
    Returns dict(obligations, discharged, failures=[...], checker_cmd, wall_s)."""
    t0 = time.time()
    idx = props_index()[pid]
    modules = idx["modules"]
    theorems = idx["theorems"]
    failures = []
    cmd = ["lake", "build"] + modules + ["model_driver"]
    p = sh(cmd, cwd=LEAN)
    build_ok = p.returncode == 0
    if not build_ok:
        failures.append({"kind": "lean-build", "detail": (p.stdout + p.stderr)[-3000:]})
    # forbidden constructs in every file of the library
    for sub in ("PestTyped", "Driver"):
        for root, _, files in os.walk(os.path.join(LEAN, sub)):
            for f in files:
                if f.endswith(".lean"):
                    src = strip_comments(open(os.path.join(root, f)).read())
                    m = FORBIDDEN.search(src) or (sub == "PestTyped" and FORBIDDEN_LIB.search(src))
                    if m:
                        failures.append({"kind": "forbidden-construct", "detail": f"{sub}/{f}: {m.group(0).strip()!r}"})
    # statements are pinned: a weakened or vanished obligation, or a removed non-vacuity example, is a failure
    try:
        sys.path.insert(0, VERIF)
        import tools_pin_statements as pins
        for kind, p_, detail in pins.diff(pid):
            failures.append({"kind": kind, "theorem": detail, "detail": "differs from the committed props_pins.json (tools_pin_statements.py --repin after review)"})
        unpinned = pins.unpinned(pid)
    except Exception as e:
        failures.append({"kind": "pins", "detail": str(e)[-500:]})
        unpinned = []
    discharged = 0
    axioms_seen = {}
    if build_ok:
        os.makedirs(os.path.join(BUILD, "audit"), exist_ok=True)
        audit = os.path.join(BUILD, "audit", f"{pid}.lean")
        with open(audit, "w") as f:
            for mod in modules:
                f.write(f"import {mod}\n")
            for th in theorems:
                f.write(f"#print axioms {th}\n")
        p = sh(["lake", "env", "lean", audit], cwd=LEAN)
        out = p.stdout + p.stderr
        for th in theorems:
            short = th
            m = re.search(r"'" + re.escape(short) + r"' depends on axioms: \[(.*?)\]", out, flags=re.S)
            m0 = re.search(r"'" + re.escape(short) + r"' does not depend on any axioms", out)
            if m0:
                axioms_seen[th] = []
                discharged += 1
            elif m:
                ax = [a.strip() for a in m.group(1).replace("\n", " ").split(",") if a.strip()]
                axioms_seen[th] = ax
                bad = [a for a in ax if a not in ALLOWED_AXIOMS]
                if bad:
                    failures.append({"kind": "axiom", "theorem": th, "detail": bad})
                else:
                    discharged += 1
            else:
                failures.append({"kind": "missing-theorem", "theorem": th, "detail": out[-800:]})
    # thorough tier: the compiled modules are re-checked by Lean's independent checker
    rechecked = None
    if build_ok and tier == "thorough":
        rechecked = {}
        for mod in modules:
            q = sh(["lake", "env", "leanchecker", mod], cwd=LEAN)
            rechecked[mod] = q.returncode == 0
            if q.returncode != 0:
                failures.append({"kind": "leanchecker", "theorem": mod, "detail": (q.stdout + q.stderr)[-1500:]})
    return {
        "leanchecker": rechecked,
        "obligations": len(theorems),
        "discharged": discharged,
        "failures": failures,
        "axioms": axioms_seen,
        "unpinned_theorems": unpinned,
        "checker_cmd": f"cd /verif/lean && {' '.join(cmd)} && lake env lean ../build/audit/{pid}.lean   # #print axioms of every obligation",
        "wall_s": time.time() - t0,
    }


# ---------------------------------------------------------------------------------------------
# cache key

def tree_hash(paths, exts=(".rs", ".toml", ".pest", ".lock", ".py", ".lean", ".json")):
    h = hashlib.sha256()
    for base in paths:
        if os.path.isfile(base):
            h.update(base.encode())
            h.update(open(base, "rb").read())
            continue
        for root, dirs, files in os.walk(base):
            dirs[:] = sorted(d for d in dirs if d not in ("target", ".git", ".lake", "__pycache__", "build"))
            for f in sorted(files):
                if f.endswith(exts):
                    p = os.path.join(root, f)
                    h.update(p.encode())
                    try:
                        h.update(open(p, "rb").read())
                    except OSError:
                        pass
    return h.hexdigest()[:20]


def repo_key():
    return tree_hash(["/repo/main", "/repo/generator", "/repo/derive", "/repo/Cargo.toml", "/repo/Cargo.lock"])


def machinery_key():
    """Only the files that determine the outcome of the shared suites (so that unrelated additions to
    checks/ or harness/ do not invalidate cached runs)."""
    H = os.path.join(VERIF, "harness")
    Mo = os.path.join(LEAN, "PestTyped", "Model")
    return tree_hash([os.path.join(H, "corpus.py"), os.path.join(H, "rawgen.py"), os.path.join(H, "common"),
                      os.path.join(H, "tools"), os.path.join(H, "regressions"), os.path.join(VERIF, "checks", "suites.py")]
                     + [Mo, os.path.join(LEAN, "Driver")])


def repo_head():
    p = sh(["git", "-C", "/repo", "rev-parse", "HEAD"])
    d = sh(["git", "-C", "/repo", "status", "--porcelain", "--untracked-files=no"])
    return p.stdout.strip() + ("+dirty" if d.stdout.strip() else "")


# ---------------------------------------------------------------------------------------------
# evidence / replay / findings

def write_replay(pid, payload):
    os.makedirs(REPLAYS, exist_ok=True)
    blob = json.dumps(payload, sort_keys=True, ensure_ascii=False)
    name = f"{pid}-{hashlib.sha1(blob.encode()).hexdigest()[:12]}.json"
    path = os.path.join(REPLAYS, name)
    with open(path, "w") as f:
        json.dump(payload, f, indent=1, ensure_ascii=False, sort_keys=True)
    return path


def known_findings(pid):
    path = os.path.join(VERIF, "known_findings.json")
    if not os.path.exists(path):
        return []
    return [e for e in json.load(open(path)) if e["property"] == pid and e["status"] == "finding"]


def write_evidence(pid, tier, seed, lean, coverage_extra, wall_s, violations, assumptions=None):
    os.makedirs(EVIDENCE, exist_ok=True)
    cov = {
        "obligations": lean["obligations"],
        "discharged": lean["discharged"],
        "checker_cmd": lean["checker_cmd"],
        "trusted_base": TRUSTED_BASE,
        "axioms_per_theorem": lean["axioms"],
        "leanchecker": lean.get("leanchecker"),
        "statement_pins": {"file": "props_pins.json", "unpinned_theorems": lean.get("unpinned_theorems", [])},
    }
    cov.update(coverage_extra)
    ev = {
        "property_id": pid,
        "tier": tier,
        "seed": seed,
        "level": "proof",
        "coverage": cov,
        "assumptions": assumptions or [],
        "wall_s": round(wall_s, 2),
        "violations": violations,
        "repo_head": repo_head(),
    }
    with open(os.path.join(EVIDENCE, f"{pid}.json"), "w") as f:
        json.dump(ev, f, indent=1, ensure_ascii=False)
    return ev
