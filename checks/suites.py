"""Suites: build the runners from /repo's current working tree, run the cases on the implementation
and on the Lean model driver, and return aligned observables.  Results are cached under
build/cache keyed by the content of /repo's sources, of the machinery, the tier and the seed, so the
twenty property checks share one run per tree state."""
import concurrent.futures, json, os, random, re, subprocess, sys, time
from . import common
from .common import BUILD, CACHE, LEAN, sh
import corpus, rawgen

DRIVER = os.path.join(LEAN, ".lake", "build", "bin", "model_driver")
NBINS = 16


def ensure_driver():
    p = sh(["lake", "build", "model_driver"], cwd=LEAN)
    if p.returncode != 0:
        raise RuntimeError("model_driver does not build:\n" + p.stdout[-2000:] + p.stderr[-2000:])


def parse_obs(line):
    d = {}
    for kv in line.split("\t"):
        if "=" in kv:
            k, v = kv.split("=", 1)
            d[k] = v
    return d


def case_line(c):
    return f"{c[0]} {c[1]} {c[2]} {c[3]} {c[4]} {c[5]} {corpus.hexs(c[6])}"


def run_bins(prefix, where, cases, profile="debug", target=None):
    """Runs every case on the binary that holds its grammar; returns list of raw lines."""
    target = target or corpus.TARGET
    per = {}
    for no, c in enumerate(cases):
        per.setdefault(where[c[0]], []).append(f"{no} {case_line(c)}")
    out = [None] * len(cases)

    def run(b):
        lines = per[b]
        res = []
        start = 0
        timeouts = {}
        # a watchdog exit (code 3, after 6 s without an answer: harness/common/src/lib.rs) ends the process: the case is
        # retried once in a fresh process, then the run restarts after it; after 2 cases of one (grammar, rule) that do
        # not return (twice each), the remaining cases of that rule are not run (marked v=timeout-skipped)
        while start < len(lines):
            p = subprocess.run([os.path.join(target, profile, f"{prefix}{b}")], input="\n".join(lines[start:]) + "\n",
                               capture_output=True, text=True)
            got = p.stdout.splitlines()
            res.extend(got)
            if p.returncode == 0 and len(got) >= len(lines) - start:
                break
            if not got:
                # crashed before answering anything: mark the first case
                res.append(lines[start].split(" ", 1)[0] + " v=crash")
                start += 1
            else:
                if p.returncode not in (0, 3):
                    nxt = start + len(got)
                    if nxt < len(lines):
                        res.append(lines[nxt].split(" ", 1)[0] + " v=crash")
                        start = nxt + 1
                        continue
                start += len(got)
                if got[-1].endswith("v=timeout"):
                    # one automatic retry of the timed-out case in a fresh process: a stalled machine must not
                    # turn into a verdict (the case is a timeout only if it does not return twice)
                    p2 = subprocess.run([os.path.join(target, profile, f"{prefix}{b}")], input=lines[start - 1] + "\n",
                                        capture_output=True, text=True)
                    got2 = p2.stdout.splitlines()
                    if got2 and not got2[-1].endswith("v=timeout") and got2[-1].split(" ", 1)[0] == lines[start - 1].split(" ", 1)[0]:
                        res[-1] = got2[-1]
                        continue
                    f = lines[start - 1].split(" ")
                    key = (f[1], f[2])
                    timeouts[key] = timeouts.get(key, 0) + 1
                    if timeouts[key] >= 2:
                        keep = lines[:start]
                        for l in lines[start:]:
                            g = l.split(" ")
                            if (g[1], g[2]) == key:
                                res.append(g[0] + " v=timeout-skipped")
                            else:
                                keep.append(l)
                        lines = keep
        return res
    with concurrent.futures.ThreadPoolExecutor(NBINS) as ex:
        for res in ex.map(run, sorted(per)):
            for l in res:
                no, _, rest = l.partition(" ")
                try:
                    out[int(no)] = rest
                except ValueError:
                    pass
    return [o if o is not None else "v=missing" for o in out]


def uni_table_for(sexp_path):
    """pest's Unicode property tables on the test alphabet (harness/tools uni_table), written once per suite run next to
    the `.sexp` file; the driver loads it so that `charBy name` answers as pest does (corpus grammar s_uniprops)."""
    return corpus.ensure_uni_table(sexp_path[:-5] + ".uni" if sexp_path.endswith(".sexp") else sexp_path + ".uni")


def run_driver(sexp_path, cases, nproc=8, uni=None, line_prefix=""):
    chunks = [cases[i::nproc] for i in range(nproc)]
    uni = uni or uni_table_for(sexp_path)

    def run(chunk):
        if not chunk:
            return []
        p = subprocess.run([DRIVER, sexp_path, uni], input="\n".join(line_prefix + case_line(c) for c in chunk) + "\n",
                           capture_output=True, text=True)
        return p.stdout.splitlines()
    out = [None] * len(cases)
    with concurrent.futures.ThreadPoolExecutor(nproc) as ex:
        for k, res in enumerate(ex.map(run, chunks)):
            for j, l in enumerate(res):
                out[k + j * nproc] = l
    return [o if o is not None else "v=missing" for o in out]


class SuiteResult:
    def __init__(self, d):
        self.dir = d
        try:
            os.utime(d)     # mark the cache entry as in use (see _gc_cache)
        except OSError:
            pass
        self.meta = json.load(open(os.path.join(d, "meta.json")))
        self.cases = [tuple(x) for x in json.load(open(os.path.join(d, "cases.json")))]
        self.impl = open(os.path.join(d, "impl.txt")).read().split("\n")[:len(self.cases)]
        self.model = open(os.path.join(d, "model.txt")).read().split("\n")[:len(self.cases)]
        self.grammars = self.meta["grammars"]

    def rows(self):
        for c, i, m in zip(self.cases, self.impl, self.model):
            yield c, parse_obs(i), parse_obs(m)


def _store(d, meta, cases, impl, model):
    """Every file is written completely and then renamed; meta.json (the marker of a finished suite) last."""
    os.makedirs(d, exist_ok=True)

    def put(name, write):
        tmp = os.path.join(d, f".{name}.{os.getpid()}.tmp")
        with open(tmp, "w") as f:
            write(f)
        os.replace(tmp, os.path.join(d, name))
    put("cases.json", lambda f: json.dump(cases, f, ensure_ascii=False))
    put("impl.txt", lambda f: f.write("\n".join(impl) + "\n"))
    put("model.txt", lambda f: f.write("\n".join(model) + "\n"))
    put("meta.json", lambda f: json.dump(meta, f, ensure_ascii=False))


class _flock:
    """Inter-process lock (many checks run at the same time): `with _flock(path): …`"""

    held = {}    # path -> [file, depth]: re-entrant within the process (suite_raw_release runs suite_raw inside)

    def __init__(self, path):
        self.path = os.path.abspath(path)

    def __enter__(self):
        import fcntl
        h = _flock.held.get(self.path)
        if h:
            h[1] += 1
            return self
        os.makedirs(os.path.dirname(self.path), exist_ok=True)
        f = open(self.path, "w")
        fcntl.flock(f, fcntl.LOCK_EX)
        _flock.held[self.path] = [f, 1]
        return self

    def __exit__(self, *a):
        import fcntl
        h = _flock.held[self.path]
        h[1] -= 1
        if h[1] == 0:
            fcntl.flock(h[0], fcntl.LOCK_UN)
            h[0].close()
            del _flock.held[self.path]


def workspace_lock(name):
    """`with suites.workspace_lock("ws_acc"):` — inter-process lock (fcntl.flock on build/locks/<name>.lock, re-entrant within
    a process) for everything that emits into a cargo workspace directory, builds it and runs its binaries: workspaces are
    shared across seeds and all binaries live in one target directory, so one run at a time per workspace.  Take it for the
    whole emit + build + run, re-check the cache after acquiring it, write the cache marker (meta.json) last and atomically."""
    return _flock(os.path.join(BUILD, "locks", re.sub(r"[^A-Za-z0-9_.-]+", "_", name) + ".lock"))


def _serialized(name, bins):
    """Decorator of a suite function `f(tier, seed)`: one process computes a given cache entry, the others wait for it;
    the binaries `<bins><n>` of the shared target directory belong to one run at a time."""
    def deco(fn):
        def run(tier, seed):
            d = _cache_dir(name, tier, seed)
            hit = _cached(d)
            if hit:
                return hit
            with _flock(d + ".lock"):
                hit = _cached(d)
                if hit:
                    return hit
                with workspace_lock(f"bins_{bins}"):
                    return fn(tier, seed)
        run.__name__, run.__doc__ = fn.__name__, fn.__doc__
        return run
    return deco


def _cached(d):
    return SuiteResult(d) if os.path.exists(os.path.join(d, "meta.json")) else None


def _cache_dir(name, tier, seed):
    return os.path.join(CACHE, f"{name}-{tier}-{seed}-{common.repo_key()}-{common.machinery_key()}")


def _gc_cache(keep):
    if not os.path.isdir(CACHE):
        return
    # one group = a suite directory and its companion files (<dir>.sexp, <dir>.uni, …); the `keep` newest groups stay
    groups = {}
    for d in os.listdir(CACHE):
        try:
            groups.setdefault(d.split(".", 1)[0], []).append((os.path.getmtime(os.path.join(CACHE, d)), d))
        except OSError:
            pass
    order = sorted(groups, key=lambda k: max(t for t, _ in groups[k]))
    now = time.time()
    for k in order[:-keep]:
        if now - max(t for t, _ in groups[k]) < 5400:
            continue        # used within the last 90 minutes (SuiteResult touches its directory): a running check may hold it
        for _, d in groups[k]:
            subprocess.call(["rm", "-rf", os.path.join(CACHE, d)])


# ---------------------------------------------------------------------------------------------
# suite "run": generator + runtime (T-run) with pest as by-stander oracle

ENTRIES = ("parse_partial", "check_partial", "parse", "check")


def sub_cases(gid, rule, s, out):
    """Every entry point on every Position(s, a) (a > 0) and Span(s, a, b) (a <= b, not the whole string) of `s`."""
    bs = corpus.boundaries(s)
    for a in bs:
        if a > 0:
            for entry in ENTRIES:
                out.append((gid, rule, entry, "pos", a, 0, s))
        for b in bs:
            if b >= a and not (a == 0 and b == bs[-1]):
                for entry in ENTRIES:
                    out.append((gid, rule, entry, "span", a, b, s))


def run_cases_for(g, rnd, maxlen, nrand, span_maxlen):
    """Cases of one grammar.  Optional keys of `g`: `inputs` (targeted whole-string inputs; `sub_targeted` = False: no sub-input forms
    of the short ones among them), `inputs_by_prefix` (targeted inputs of the rules whose name has a prefix), `exh` (cap of
    the exhaustive length), `alpha` (the alphabet of the exhaustive part), `subinputs` (whole strings of which EVERY Position / Span cut
    is run through every entry point, and every slice as a fresh `&str` input: C08's reference)."""
    cases = []
    ins = corpus.inputs_for(g, rnd, min(maxlen, g.get("exh", maxlen)), nrand)
    targeted = set(g.get("inputs", []))
    subs = list(g.get("subinputs", []))
    seen = set(ins)
    for w in subs:
        bs = corpus.boundaries(w)
        wb = w.encode("utf-8")
        for i, a in enumerate(bs):
            for b in bs[i:]:
                sl = wb[a:b].decode("utf-8")
                if sl not in seen:
                    seen.add(sl)
                    ins.append(sl)
    subset = set(subs)
    for (rule, kind) in g["rules"]:
        for s in ins:
            # targeted sentences of the big systematic families: the partial entries only (volume)
            entries = ("parse_partial", "check_partial") if (s in targeted and len(g["rules"]) > 40) else ENTRIES
            for entry in entries:
                cases.append((g["gid"], rule, entry, "str", 0, 0, s))
            if rule in ("WHITESPACE", "COMMENT") and len(s) > span_maxlen and s not in subset:
                # C04's independent trailing-skip computation needs the skip rules at every offset
                for a in corpus.boundaries(s)[1:]:
                    cases.append((g["gid"], rule, "parse_partial", "pos", a, 0, s))
            if (len(s) <= span_maxlen and (g.get("sub_targeted", True) or s not in targeted)) or s in subset:
                sub_cases(g["gid"], rule, s, cases)
        # targeted sentences meant for the rules whose name starts with a prefix
        for prefix, lst in g.get("inputs_by_prefix", []):
            if rule.startswith(prefix):
                for s in lst:
                    if s not in seen:
                        for entry in (("parse_partial", "check_partial") if len(g["rules"]) > 40 else ENTRIES):
                            cases.append((g["gid"], rule, entry, "str", 0, 0, s))
    return cases


def attribute_build_errors(err, ws, prefix):
    """{gid: error text} for the rustc errors of a corpus workspace that point into the module of one grammar (each
    grammar is one `pub mod t_<gid>` (+ `p_<gid>`) followed by its case functions in `<prefix><n>/src/main.rs`)."""
    out = {}
    linemaps = {}
    for blk in re.split(r"\n(?=error)", "\n" + err):
        blk = blk.lstrip("\n")
        if not blk.startswith("error"):
            continue
        m = re.search(r"--> (?:\S*/)?(%s\d+)/src/main\.rs:(\d+)" % re.escape(prefix), blk)
        if not m:
            continue
        b, line = m.group(1), int(m.group(2))
        if b not in linemaps:
            lm = []
            try:
                for no, l in enumerate(open(os.path.join(ws, b, "src", "main.rs")), 1):
                    mm = re.match(r"pub mod [tp]_(\w+) \{", l)
                    if mm:
                        lm.append((no, mm.group(1)))
            except OSError:
                pass
            linemaps[b] = lm
        gid = None
        for no, gname in linemaps[b]:
            if no <= line:
                gid = gname
        if gid:
            out.setdefault(gid, blk[:1500])
    return out


def build_corpus(ok, ws, prefix, release=False, with_pest=True, attrs=""):
    """Emits and builds the workspace of the grammars `ok` (cargo --keep-going).  A grammar whose derive output does not
    compile is taken out and reported (it must not hide the other grammars): returns (where, built grammars, failures)."""
    failures = []
    for _ in range(4):
        where = corpus.emit_workspace(ok, ws, NBINS, attrs=attrs, with_pest=with_pest, prefix=prefix)
        rc, err = corpus.build_workspace(ws, release=release, keep_going=True)
        if rc == 0:
            return where, ok, failures
        bad = attribute_build_errors(err, ws, prefix)
        byid = {g["gid"]: g for g in ok}
        bad = {gid: e for gid, e in bad.items() if gid in byid}
        if not bad:
            raise RuntimeError("corpus workspace does not build:\n" + err[-4000:])
        failures += [{"gid": gid, "text": byid[gid]["text"], "error": e, "attrs": attrs} for gid, e in sorted(bad.items())]
        ok = [g for g in ok if g["gid"] not in bad]
    raise RuntimeError("corpus workspace does not build after removing the grammars that fail:\n" + err[-4000:])


def _grammar_meta(ok):
    return {g["gid"]: {"text": g["text"], "rules": g["rules"], "uses_stack": g["uses_stack"], "sexp": g["sexp"]} for g in ok}


def run_corpus_suite(d, name, tier, seed, gs, ws, prefix, cases_of, release=False, with_pest=True, attrs="", line_prefix="", t0=None):
    """validate -> build -> cases -> implementation + model; stores the result under `d`.  Two locks: one per result (a
    second process that wants the same suite waits and then reads it), one per binary prefix (the workspace sources and the
    binaries `<prefix><n>` in the shared target directory belong to one run at a time, from emission to the last case)."""
    with _flock(d + ".lock"):
        hit = _cached(d)
        if hit:
            return hit
        t0 = t0 or time.time()
        ensure_driver()
        ok, bad = corpus.validate(gs)
        with workspace_lock(f"bins_{prefix}"):
            where, ok, failures = build_corpus(ok, ws, prefix, release=release, with_pest=with_pest, attrs=attrs)
            cases = []
            for g in ok:
                cases += cases_of(g)
            impl = run_bins(prefix, where, cases, profile="release" if release else "debug")
        os.makedirs(os.path.dirname(d), exist_ok=True)
        sexp = d + ".sexp"
        open(sexp, "w").write("\n".join(g["sexp"] for g in ok) + "\n")
        model = run_driver(sexp, cases, line_prefix=line_prefix)
        return _finish_corpus_suite(d, name, tier, seed, ok, bad, failures, attrs, cases, impl, model, t0)


def _finish_corpus_suite(d, name, tier, seed, ok, bad, failures, attrs, cases, impl, model, t0):
    meta = {"suite": name, "tier": tier, "seed": seed, "wall_s": time.time() - t0, "grammars": _grammar_meta(ok),
            "rejected": [{"gid": g["gid"], "why": g["reject"][:200]} for g in bad], "build_failures": failures,
            "attrs": attrs}
    _store(d, meta, cases, impl, model)
    return SuiteResult(d)


def corpus_grammars(seed, nseeded):
    gs = corpus.systematic_grammars() + corpus.targeted_grammars() + corpus.random_grammars(seed, nseeded)
    reg = os.path.join(common.VERIF, "harness", "regressions", "grammars.json")
    if os.path.exists(reg):
        gs = json.load(open(reg)) + gs
    return gs


def suite_run(tier, seed):
    d = _cache_dir("run", tier, seed)
    if os.path.exists(os.path.join(d, "meta.json")):
        return SuiteResult(d)
    gs = corpus_grammars(seed, 16 if tier == "quick" else 160)
    rnd = random.Random(seed)

    def cases_of(g):
        big = len(g["rules"]) > 40
        if tier == "quick":
            return run_cases_for(g, rnd, 3 if big else 4, 4 if big else 12, 0 if big else 3)
        return run_cases_for(g, rnd, 4 if big else 5, 8 if big else 40, 2 if big else 3)
    # binary names must be unique per workspace: all workspaces share one CARGO_TARGET_DIR
    res = run_corpus_suite(d, "run", tier, seed, gs, os.path.join(BUILD, f"ws_run_{tier}"), "bq" if tier == "quick" else "bt", cases_of)
    _gc_cache(12)
    return res


def suite_run_release(tier, seed):
    """The same protocol on a release build (unchecked slicing): multi-byte heavy part of the corpus."""
    d = _cache_dir("runrel", tier, seed)
    if os.path.exists(os.path.join(d, "meta.json")):
        return SuiteResult(d)
    gs = [g for g in corpus.systematic_grammars() + corpus.targeted_grammars() if not g["gid"].startswith("s_kinds")]
    gs += corpus.random_grammars(seed + 1, 8 if tier == "quick" else 64, modes=("multibyte", "multibyte", "stacky", "plain"))
    rnd = random.Random(seed + 1)

    def cases_of(g):
        g = dict(g)
        if "alpha" not in g:
            g["alphabet"] = list(g["alphabet"])[:3] + [c for c in ("é", "中", "\U0001F600") if c not in g["alphabet"]][:2]
        return run_cases_for(g, rnd, 3 if tier == "quick" else 4, 20, 3)
    return run_corpus_suite(d, "runrel", tier, seed, gs, os.path.join(BUILD, f"ws_runrel_{tier}"), "rlq" if tier == "quick" else "rlt",
                            cases_of, release=True, with_pest=False)


def suite_run_noopt(tier, seed):
    """The counted-repetition / stack part of the corpus derived with `#[pest_optimizer = false]`: the only way the
    generator emits `RepExact` / `RepMin` / `RepMax` / `RepMinMax` (pest's optimizer unrolls `e{n,m}` otherwise).
    Model side: the driver's `opts 00` entry (Model.GenOpts.genWith on the raw AST; `spec=` is the Spec of the raw AST).
    pest_derive's parser is not run here: it always walks the OPTIMIZED AST, and pest_meta's optimizer is not semantics
    preserving where a skip rule is defined (known findings F-OPT-1/3/4, property C20)."""
    d = _cache_dir("runraw", tier, seed)
    if os.path.exists(os.path.join(d, "meta.json")):
        return SuiteResult(d)
    gs = [g for g in corpus.systematic_grammars() + corpus.targeted_grammars() if g.get("noopt") or g["gid"] == "s_stack"]
    rnd = random.Random(seed + 2)

    def cases_of(g):
        return run_cases_for(g, rnd, 4 if tier == "quick" else 5, 12 if tier == "quick" else 40, 3)
    return run_corpus_suite(d, "runraw", tier, seed, gs, os.path.join(BUILD, f"ws_runraw_{tier}"), "nq" if tier == "quick" else "nt",
                            cases_of, with_pest=False, attrs="#[pest_optimizer = false]", line_prefix="opts 00 ")


def suite_mini(name, grammars, cases_of=None, release=False, attrs="", line_prefix="", prefix="rp"):
    """A one-off suite outside the cache (replay of a recorded case, corpus experiments): builds `grammars` in their own
    workspace build/ws_mini_<name> with binaries <prefix>0.., runs the cases, returns the SuiteResult."""
    d = os.path.join(BUILD, "mini", f"{name}")
    subprocess.call(["rm", "-rf", d, d + ".sexp", d + ".uni"])
    rnd = random.Random(1)
    cases_of = cases_of or (lambda g: run_cases_for(g, rnd, 4, 12, 3))
    return run_corpus_suite(d, "mini", "quick", 0, grammars, os.path.join(BUILD, f"ws_mini_{name}"), prefix, cases_of,
                            release=release, with_pest=not release, attrs=attrs, line_prefix=line_prefix)


# ---------------------------------------------------------------------------------------------
# suite "raw": runtime generics instantiated directly (T-raw)

def strings(alpha, n):
    res = [""]
    fr = [""]
    for _ in range(n):
        fr = [s + c for s in fr for c in alpha]
        res += fr
    return res


def raw_targeted_inputs(gid, rnd):
    """Inputs long enough to COMPLETE the stack grammars of rawgen (quick-tier exhaustive inputs have at most 4 characters:
    PEEK_ALL after three pushes, a slice of two entries at depth 3 or 4, a pushed span with an inner skip never succeed):
    the pushes' texts followed by a part of the stack in either order, with and without blanks in between."""
    vals = ["ab", "a", "b"]
    out = []
    if gid.startswith("slice_") and gid[6].isdigit() and int(gid[6]) >= 2:
        depth = int(gid[6])
        import itertools
        combos = list(itertools.product(vals, repeat=depth))
        rnd2 = random.Random(depth * 7919 + (1 if gid.endswith("n") else 0))
        rnd2.shuffle(combos)
        for vs in combos[:12]:
            i, j = sorted((rnd2.randint(0, depth), rnd2.randint(0, depth)))
            for tail in ("".join(vs), "".join(reversed(vs)), "".join(vs[i:j]), "".join(vs[-2:]), "".join(vs[:2]), "".join(vs[1:-1])):
                out.append("".join(vs) + tail)
                if gid.endswith("n"):
                    out.append(" ".join(vs) + " " + tail)
    elif gid.startswith("stackops_"):
        for vs in itertools_product(vals, 3):
            out.append("".join(vs) + "".join(reversed(vs)))
            out.append("".join(vs) + "".join(vs))
            out.append(" ".join(vs) + " " + " ".join(reversed(vs)))
        for vs in itertools_product(vals, 2):
            for tail in (vs[1] + vs[0], vs[0] + vs[1], vs[1], vs[0] + vs[0]):
                out.append(vs[0] + vs[1] + tail)
                out.append(vs[0] + " " + vs[1] + " " + tail)
        out += ["a ba b", "aba b", "abab", "a bab", "a b a b", "a  ba  b", "a ba  b", "ab ab", "a ba b ", "a ba ba b"]
    res = []
    for x in out:
        if x not in res:
            res.append(x)
    return res


def itertools_product(vals, n):
    import itertools
    return list(itertools.product(vals, repeat=n))


def rep_inputs(tier):
    """C19 (grammars `rep_*`): (exhaustive part, targeted part, description).  Quick: all strings up to length 5 over {a, b, blank};
    thorough: up to length 6 over {a, b, blank} and up to length 8 over {a, blank}.  Targeted: k = 1..7 matchable iterations
    (`a`; 1..5 for `ab`), with zero, one or two blanks between them and different tails, so that for EVERY bound of the corpus
    (MAX <= 4) at least MAX + 1 iterations could match ("stops at MAX even if more could match"), plus inputs that complete
    the stack forms (pushes followed by the pops / drops / peeks of the repetition)."""
    if tier == "quick":
        exh = strings("ab ", 5)
        bound = {"{a,b,blank}": 5}
    else:
        exh = strings("ab ", 6)
        have = set(exh)
        exh += [x for x in strings("a ", 8) if x not in have]
        bound = {"{a,b,blank}": 6, "{a,blank}": 8}
    out = []
    for u, kmax in (("a", 7), ("ab", 5)):
        for k in range(1, kmax + 1):
            for sep in ("", " ") + (("  ",) if k in (2, 5) else ()):
                base = sep.join([u] * k)
                for tail in ("", "b", " b"):
                    out.append(base + tail)
    out += ["ab  ba", "ab ba", "abba", "abbaa", "ab  b", "ab   ba", "ab  b a", "abb", "abbaaa", "ab ba a a", "abab ba", "ab ab",
            "ba ab", "baab", "baabaa", "b a a a a a", "baaaaaa", "b aa aa aa", "ba a a a a a", "aaaaaaab", "a a a a a a a b"]
    # replace-top elements (rawgen.replace_grammars): prefix pushes, k matched iterations, then a failing one / the bound, then
    # text for the stack-reading suffix
    out += ["abbbba", "abbbbba", "abbbbbb", "a b b b a", "a b b b b a", "a b b b b b", "abbbab", "abbab", "abbbbab",
            "abbaab", "abbaabb", "abababa", "ababab", "abbabab", "ab b a a b", "abaabb", "abbbaa", "abbbbaa", "ababbab"]
    have = set(exh)
    targeted = []
    for x in out:
        if x not in have:
            have.add(x)
            targeted.append(x)
    return exh, targeted, bound


@_serialized("raw", "r")
def suite_raw(tier, seed):
    d = _cache_dir("raw", tier, seed)
    if os.path.exists(os.path.join(d, "meta.json")):
        return SuiteResult(d)
    t0 = time.time()
    ensure_driver()
    gs = rawgen.all_raw()
    ws = os.path.join(BUILD, "ws_raw")
    where = rawgen.emit_raw_workspace(gs, ws, NBINS)
    rc, err = corpus.build_workspace(ws)
    if rc != 0:
        raise RuntimeError("raw workspace does not build:\n" + err[-4000:])
    os.makedirs(CACHE, exist_ok=True)
    sexp = d + ".sexp"
    open(sexp, "w").write("\n".join(rawgen.grammar_sexp(g, nf_items=True) for g in gs) + "\n")
    n = 4 if tier == "quick" else 6
    ins = strings("ab ", n)
    rnd = random.Random(seed)
    ins += ["".join(rnd.choice("ab éB\n\r") for _ in range(rnd.randint(n + 1, n + 4))) for _ in range(60)]
    ins8 = ins + (["".join(rnd.choice("ab ") for _ in range(rnd.randint(7, 8))) for _ in range(200)] if tier != "quick" else [])
    # C19: the `rep_*` grammars get their own exhaustive bound and targeted long inputs (rep_inputs); the random ones stay
    rep_exh, rep_tgt, rep_bound = rep_inputs(tier)
    have = set(rep_exh) | set(rep_tgt)
    # (thorough: the 200 random strings of length 7-8 predate the exhaustive {a, blank} part; 60 random + 60 long ones are kept)
    rnd_part = ins[len(strings("ab ", n)):]                      # the 60 random strings over "ab éB\n\r"
    ins_rep = rep_exh + rep_tgt + [x for x in (rnd_part + ins8[len(ins):][:60] if tier != "quick" else rnd_part[-30:]) if x not in have]
    cases = []
    for g in gs:
        use = (ins_rep if g["gid"].startswith("rep_") else ins) + raw_targeted_inputs(g["gid"], rnd)
        for r in g["rules"]:
            # a rule whose `$ignored` is a counted repetition: the full entries run it (trailing skip)
            entries = ("parse_partial", "check_partial") + (("parse", "check") if r.get("ignored") else ())
            for s in use:
                for entry in entries:
                    cases.append((g["gid"], r["name"], entry, "str", 0, 0, s))
        # direct calls of NeverFailedTypedNode::parse_with / check_with (rawgen `nf` items)
        for it in g.get("nf", []):
            cases.append((g["gid"], it["name"], "nf_default", "str", 0, 0, ""))
            for s in use:
                for entry in ("nf_parse", "nf_check"):
                    cases.append((g["gid"], it["name"], entry, "str", 0, 0, s))
    # sub-inputs for the raw combinators too (Span / Position forms of short inputs)
    short = [s for s in strings("ab ", 3)] + ["aé b", "éa", "ab\n"]
    for g in gs:
        if g["gid"] in ("rep_misc", "leaf", "rep_s", "rep_null_o", "stackops_n"):
            for r in g["rules"]:
                for s in short:
                    bs = corpus.boundaries(s)
                    for a in bs:
                        if a > 0:
                            cases.append((g["gid"], r["name"], "parse_partial", "pos", a, 0, s))
                            cases.append((g["gid"], r["name"], "check_partial", "pos", a, 0, s))
                        for b in bs:
                            if b >= a and not (a == 0 and b == bs[-1]):
                                cases.append((g["gid"], r["name"], "parse_partial", "span", a, b, s))
                                cases.append((g["gid"], r["name"], "check_partial", "span", a, b, s))
    # C19: sub-input forms for the other `rep_*` grammars too (every fourth rule, staggered per grammar so that every
    # (skip, MIN, MAX) occurs for some element kind) and for every direct-call item; a smaller set of strings
    short2 = strings("a ", 3) + ["ab a", "a ab", "aé a", "aaaaa", "a a a"]
    for gi, g in enumerate(gs):
        if not g["gid"].startswith("rep_") or g["gid"] in ("rep_misc", "rep_s", "rep_null_o"):
            continue
        picked = [(r["name"], ("parse_partial", "check_partial") + (("parse", "check") if r.get("ignored") else ()))
                  for ri, r in enumerate(g["rules"]) if (ri + gi) % 4 == 0]
        picked += [(it["name"], ("nf_parse", "nf_check")) for it in g.get("nf", [])]
        for name, entries in picked:
            for s in short2:
                bs = corpus.boundaries(s)
                for a in bs:
                    for entry in entries:
                        if a > 0:
                            cases.append((g["gid"], name, entry, "pos", a, 0, s))
                        for b in bs:
                            if b >= a and not (a == 0 and b == bs[-1]):
                                cases.append((g["gid"], name, entry, "span", a, b, s))
    impl = run_bins("r", where, cases)
    model = run_driver(sexp, cases)
    meta = {"suite": "raw", "tier": tier, "seed": seed, "wall_s": time.time() - t0,
            "grammars": {g["gid"]: {"rules": [r["name"] for r in g["rules"]]} for g in gs},
            "rep_inputs": {"exhaustive_max_length": rep_bound, "exhaustive_strings": len(rep_exh), "targeted": len(rep_tgt),
                           "targeted_max_length": max(len(x) for x in rep_tgt), "random": len(ins_rep) - len(rep_exh) - len(rep_tgt)}}
    _store(d, meta, cases, impl, model)
    _gc_cache(12)
    return SuiteResult(d)


@_serialized("rawrel", "r")
def suite_raw_release(tier, seed):
    """T-raw-release: the raw suite (hand-instantiated combinators, hand-written skip types) built with the RELEASE
    profile's `debug_assertions = false` / `overflow-checks = false` (so `Input::get` slices unchecked, `debug_assert!`s are
    gone); opt-level 0 to keep the build of the 16 generic-heavy binaries under a minute.  Same workspace (binaries
    `target/release/r<k>`), same cases and the same model answers as `suite_raw`.  Quick tier: a subset — sub-input (Span /
    Position) cases: all of the non-`rep_` grammars and of rep_misc / rep_s / rep_null_o, every 6th of the others; inputs with
    a multi-byte character, CR or LF: all of the non-`rep_` grammars, every 3rd of the `rep_` ones; every 13th of the rest."""
    d = _cache_dir("rawrel", tier, seed)
    if os.path.exists(os.path.join(d, "meta.json")):
        return SuiteResult(d)
    base = suite_raw(tier, seed)
    t0 = time.time()
    gs = rawgen.all_raw()
    ws = os.path.join(BUILD, "ws_raw")
    where = rawgen.emit_raw_workspace(gs, ws, NBINS)
    p = subprocess.run(["cargo", "build", "--offline", "-q", "--release"], cwd=ws, capture_output=True, text=True,
                       env=dict(corpus.ENV, CARGO_PROFILE_RELEASE_OPT_LEVEL="0", CARGO_PROFILE_RELEASE_DEBUG_ASSERTIONS="false",
                                CARGO_PROFILE_RELEASE_OVERFLOW_CHECKS="false"))
    if p.returncode != 0:
        raise RuntimeError("raw workspace does not build (release):\n" + p.stderr[-4000:])
    full = ("rep_misc", "rep_s", "rep_null_o")

    def kept(k, c):
        if tier != "quick":
            return True
        rep = c[0].startswith("rep_") and c[0] not in full
        if c[3] != "str":
            return not rep or k % 6 == 0
        if any(ord(ch) > 127 or ch in "\r\n" for ch in c[6]):
            return not c[0].startswith("rep_") or k % 3 == 0
        return k % 13 == 0
    keep = [k for k, c in enumerate(base.cases) if kept(k, c)]
    cases = [base.cases[k] for k in keep]
    impl = run_bins("r", where, cases, profile="release")
    model = [base.model[k] for k in keep]
    meta = {"suite": "rawrel", "tier": tier, "seed": seed, "wall_s": time.time() - t0, "grammars": base.meta["grammars"],
            "subset_of_raw": {"raw_cases": len(base.cases), "kept": len(cases)}}
    _store(d, meta, cases, impl, model)
    return SuiteResult(d)


def tie_stats(result, keys, case_filter=None, limit=20):
    """Cases where the implementation and the model differ on the given observables.  Rows on which the model ran out of
    fuel (`v=oof`) say nothing: they are counted separately (`oof_skipped`), never as agreeing."""
    n = 0
    diffs = []
    total = 0
    oof = 0
    for c, io, mo in result.rows():
        if case_filter and not case_filter(c):
            continue
        total += 1
        if mo.get("v") == "oof":
            oof += 1
            continue
        bad = [k for k in keys if (k in mo or k in io) and io.get(k) != mo.get(k)]
        if bad:
            n += 1
            if len(diffs) < limit:
                diffs.append({"case": list(c), "keys": bad, "impl": {k: io.get(k) for k in bad}, "model": {k: mo.get(k) for k in bad}})
    return {"cases": total, "disagree": n, "oof_skipped": oof, "agree": total - n - oof, "first": diffs}


def tie_diffs(result, keys, case_filter=None, limit=20):
    st = tie_stats(result, keys, case_filter, limit)
    return st["cases"], st["disagree"], st["first"]


def l0_tie(result, profile, case_filter=None, keys=("v", "end", "stk", "trk", "tok", "msg", "lc"), limit=20, tag="all"):
    """Tie of the BYTE-level interpreter (Model/RunL0.lean, driver command `l0 <p> …`; p = 1: debug profile, checked
    slicing; p = 0: release profile, unchecked) to the implementation rows of `result` (which must come from binaries of the
    same profile): on the selected cases the `l0` line must carry the observables the implementation printed, and may be
    neither `panic` nor `ub`.  The driver lines are cached next to the suite rows (same content key)."""
    idx = [k for k, c in enumerate(result.cases) if not case_filter or case_filter(c)]
    path = os.path.join(result.dir, f"l0_{profile}_{re.sub(r'[^A-Za-z0-9]+', '_', tag)}.txt")
    sel = json.dumps([len(idx), sum(idx) % 1000003])
    lines = None
    if os.path.exists(path):
        got = open(path).read().split("\n")
        if got and got[0] == sel and len(got) >= len(idx) + 1 and not any(l == "v=missing" for l in got[1:len(idx) + 1]):
            lines = got[1:len(idx) + 1]
    if lines is None:
        ensure_driver()
        sexp = result.dir + ".sexp"
        lines = run_driver(sexp, [result.cases[k] for k in idx], nproc=16, line_prefix=f"l0 {profile} ")
        try:
            os.makedirs(result.dir, exist_ok=True)
            tmp = path + f".{os.getpid()}.tmp"
            with open(tmp, "w") as f:
                f.write(sel + "\n" + "\n".join(lines) + "\n")
            os.replace(tmp, path)
        except OSError:
            pass            # the cache of the driver lines is an optimisation only
    st = {"cases": len(idx), "disagree": 0, "oof_skipped": 0, "agree": 0, "panic_or_ub": 0, "first": [], "observables": list(keys)}
    for k, line in zip(idx, lines):
        io, lo = parse_obs(result.impl[k]), parse_obs(line)
        if lo.get("v") == "oof":
            st["oof_skipped"] += 1
            continue
        bad = [x for x in keys if (x in lo or x in io) and io.get(x) != lo.get(x)]
        if lo.get("v") in ("panic", "ub"):
            st["panic_or_ub"] += 1
        if bad:
            st["disagree"] += 1
            if len(st["first"]) < limit:
                st["first"].append({"case": list(result.cases[k]), "keys": bad, "impl": {x: io.get(x) for x in bad}, "l0": {x: lo.get(x) for x in bad}})
        else:
            st["agree"] += 1
    return st
