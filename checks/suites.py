"""Suites: build the runners from /repo's current working tree, run the cases on the implementation
and on the Lean model driver, and return aligned observables.  Results are cached under
build/cache keyed by the content of /repo's sources, of the machinery, the tier and the seed, so the
twenty property checks share one run per tree state."""
import concurrent.futures, json, os, random, subprocess, sys, time
from . import common
from .common import BUILD, CACHE, LEAN, sh
import corpus, rawgen

DRIVER = os.path.join(LEAN, ".lake", "build", "bin", "model_driver")
NBINS = 16


def ensure_driver():
    p = sh(["lake", "build", "model_driver"], cwd=LEAN)
    if p.returncode != 0:
        raise RuntimeError("model_driver does not build:\n" + p.stdout[-2000:] + p.stderr[-2000:])


def parse_obs(line):
    d = {}
    for kv in line.split("\t"):
        if "=" in kv:
            k, v = kv.split("=", 1)
            d[k] = v
    return d


def case_line(c):
    return f"{c[0]} {c[1]} {c[2]} {c[3]} {c[4]} {c[5]} {corpus.hexs(c[6])}"


def run_bins(prefix, where, cases, profile="debug", target=None):
    """Runs every case on the binary that holds its grammar; returns list of raw lines."""
    target = target or corpus.TARGET
    per = {}
    for no, c in enumerate(cases):
        per.setdefault(where[c[0]], []).append(f"{no} {case_line(c)}")
    out = [None] * len(cases)

    def run(b):
        lines = per[b]
        res = []
        start = 0
        timeouts = {}
        # a watchdog exit (code 3) ends the process: restart after the timed-out case; after 3 cases of one
        # (grammar, rule) that do not return, the remaining cases of that rule are not run (marked v=timeout-skipped)
        while start < len(lines):
            p = subprocess.run([os.path.join(target, profile, f"{prefix}{b}")], input="\n".join(lines[start:]) + "\n",
                               capture_output=True, text=True)
            got = p.stdout.splitlines()
            res.extend(got)
            if p.returncode == 0 and len(got) >= len(lines) - start:
                break
            if not got:
                # crashed before answering anything: mark the first case
                res.append(lines[start].split(" ", 1)[0] + " v=crash")
                start += 1
            else:
                if p.returncode not in (0, 3):
                    nxt = start + len(got)
                    if nxt < len(lines):
                        res.append(lines[nxt].split(" ", 1)[0] + " v=crash")
                        start = nxt + 1
                        continue
                start += len(got)
                if got[-1].endswith("v=timeout"):
                    f = lines[start - 1].split(" ")
                    key = (f[1], f[2])
                    timeouts[key] = timeouts.get(key, 0) + 1
                    if timeouts[key] >= 2:
                        keep = lines[:start]
                        for l in lines[start:]:
                            g = l.split(" ")
                            if (g[1], g[2]) == key:
                                res.append(g[0] + " v=timeout-skipped")
                            else:
                                keep.append(l)
                        lines = keep
        return res
    with concurrent.futures.ThreadPoolExecutor(NBINS) as ex:
        for res in ex.map(run, sorted(per)):
            for l in res:
                no, _, rest = l.partition(" ")
                try:
                    out[int(no)] = rest
                except ValueError:
                    pass
    return [o if o is not None else "v=missing" for o in out]


def uni_table_for(sexp_path):
    """pest's Unicode property tables on the test alphabet (harness/tools uni_table), written once per suite run next to
    the `.sexp` file; the driver loads it so that `charBy name` answers as pest does (corpus grammar s_uniprops)."""
    return corpus.ensure_uni_table(sexp_path[:-5] + ".uni" if sexp_path.endswith(".sexp") else sexp_path + ".uni")


def run_driver(sexp_path, cases, nproc=8, uni=None):
    chunks = [cases[i::nproc] for i in range(nproc)]
    uni = uni or uni_table_for(sexp_path)

    def run(chunk):
        if not chunk:
            return []
        p = subprocess.run([DRIVER, sexp_path, uni], input="\n".join(case_line(c) for c in chunk) + "\n",
                           capture_output=True, text=True)
        return p.stdout.splitlines()
    out = [None] * len(cases)
    with concurrent.futures.ThreadPoolExecutor(nproc) as ex:
        for k, res in enumerate(ex.map(run, chunks)):
            for j, l in enumerate(res):
                out[k + j * nproc] = l
    return [o if o is not None else "v=missing" for o in out]


class SuiteResult:
    def __init__(self, d):
        self.dir = d
        self.meta = json.load(open(os.path.join(d, "meta.json")))
        self.cases = [tuple(x) for x in json.load(open(os.path.join(d, "cases.json")))]
        self.impl = open(os.path.join(d, "impl.txt")).read().split("\n")[:len(self.cases)]
        self.model = open(os.path.join(d, "model.txt")).read().split("\n")[:len(self.cases)]
        self.grammars = self.meta["grammars"]

    def rows(self):
        for c, i, m in zip(self.cases, self.impl, self.model):
            yield c, parse_obs(i), parse_obs(m)


def _store(d, meta, cases, impl, model):
    os.makedirs(d, exist_ok=True)
    json.dump(cases, open(os.path.join(d, "cases.json"), "w"), ensure_ascii=False)
    open(os.path.join(d, "impl.txt"), "w").write("\n".join(impl) + "\n")
    open(os.path.join(d, "model.txt"), "w").write("\n".join(model) + "\n")
    json.dump(meta, open(os.path.join(d, "meta.json"), "w"), ensure_ascii=False)


def _cache_dir(name, tier, seed):
    return os.path.join(CACHE, f"{name}-{tier}-{seed}-{common.repo_key()}-{common.machinery_key()}")


def _gc_cache(keep):
    if not os.path.isdir(CACHE):
        return
    ds = sorted((os.path.join(CACHE, d) for d in os.listdir(CACHE)), key=os.path.getmtime)
    for d in ds[:-keep]:
        subprocess.call(["rm", "-rf", d])


# ---------------------------------------------------------------------------------------------
# suite "run": generator + runtime (T-run) with pest as by-stander oracle

def run_cases_for(g, rnd, maxlen, nrand, span_maxlen):
    cases = []
    ins = corpus.inputs_for(g, rnd, maxlen, nrand)
    targeted = set(g.get("inputs", []))
    for (rule, kind) in g["rules"]:
        for s in ins:
            # targeted sentences of the big systematic families: the partial entries only (volume)
            entries = ("parse_partial", "check_partial") if (s in targeted and len(g["rules"]) > 40) else ("parse_partial", "check_partial", "parse", "check")
            for entry in entries:
                cases.append((g["gid"], rule, entry, "str", 0, 0, s))
            if rule in ("WHITESPACE", "COMMENT") and len(s) > span_maxlen:
                # C04's independent trailing-skip computation needs the skip rules at every offset
                for a in corpus.boundaries(s)[1:]:
                    cases.append((g["gid"], rule, "parse_partial", "pos", a, 0, s))
            if len(s) <= span_maxlen:
                bs = corpus.boundaries(s)
                for a in bs:
                    if a > 0:
                        cases.append((g["gid"], rule, "parse_partial", "pos", a, 0, s))
                        cases.append((g["gid"], rule, "parse", "pos", a, 0, s))
                    for b in bs:
                        if b >= a and not (a == 0 and b == bs[-1]):
                            cases.append((g["gid"], rule, "parse_partial", "span", a, b, s))
                            cases.append((g["gid"], rule, "parse", "span", a, b, s))
                            cases.append((g["gid"], rule, "check_partial", "span", a, b, s))
    return cases


def suite_run(tier, seed):
    d = _cache_dir("run", tier, seed)
    if os.path.exists(os.path.join(d, "meta.json")):
        return SuiteResult(d)
    t0 = time.time()
    ensure_driver()
    nseeded = 16 if tier == "quick" else 160
    gs = corpus.systematic_grammars() + corpus.random_grammars(seed, nseeded)
    reg = os.path.join(common.VERIF, "harness", "regressions", "grammars.json")
    if os.path.exists(reg):
        gs = json.load(open(reg)) + gs
    ok, bad = corpus.validate(gs)
    ws = os.path.join(BUILD, f"ws_run_{tier}")
    # binary names must be unique per workspace: all workspaces share one CARGO_TARGET_DIR
    prefix = "bq" if tier == "quick" else "bt"
    where = corpus.emit_workspace(ok, ws, NBINS, prefix=prefix)
    rc, err = corpus.build_workspace(ws)
    if rc != 0:
        raise RuntimeError("corpus workspace does not build:\n" + err[-4000:])
    sexp = os.path.join(d + ".sexp")
    os.makedirs(CACHE, exist_ok=True)
    open(sexp, "w").write("\n".join(g["sexp"] for g in ok) + "\n")
    rnd = random.Random(seed)
    cases = []
    for g in ok:
        big = len(g["rules"]) > 40
        if tier == "quick":
            cases += run_cases_for(g, rnd, 3 if big else 4, 4 if big else 12, 0 if big else 3)
        else:
            cases += run_cases_for(g, rnd, 4 if big else 5, 8 if big else 40, 2 if big else 3)
    impl = run_bins(prefix, where, cases)
    model = run_driver(sexp, cases)
    meta = {"suite": "run", "tier": tier, "seed": seed, "wall_s": time.time() - t0,
            "grammars": {g["gid"]: {"text": g["text"], "rules": g["rules"], "uses_stack": g["uses_stack"], "sexp": g["sexp"]} for g in ok},
            "rejected": [{"gid": g["gid"], "why": g["reject"][:200]} for g in bad]}
    _store(d, meta, cases, impl, model)
    _gc_cache(12)
    return SuiteResult(d)


def suite_run_release(tier, seed):
    """The same protocol on a release build (unchecked slicing): multi-byte heavy part of the corpus."""
    d = _cache_dir("runrel", tier, seed)
    if os.path.exists(os.path.join(d, "meta.json")):
        return SuiteResult(d)
    t0 = time.time()
    ensure_driver()
    gs = [g for g in corpus.systematic_grammars() if not g["gid"].startswith("s_kinds")]
    gs += corpus.random_grammars(seed + 1, 8 if tier == "quick" else 64, modes=("multibyte", "multibyte", "stacky", "plain"))
    ok, bad = corpus.validate(gs)
    ws = os.path.join(BUILD, f"ws_runrel_{tier}")
    prefix = "rlq" if tier == "quick" else "rlt"
    where = corpus.emit_workspace(ok, ws, NBINS, with_pest=False, prefix=prefix)
    rc, err = corpus.build_workspace(ws, release=True)
    if rc != 0:
        raise RuntimeError("release corpus workspace does not build:\n" + err[-4000:])
    os.makedirs(CACHE, exist_ok=True)
    sexp = d + ".sexp"
    open(sexp, "w").write("\n".join(g["sexp"] for g in ok) + "\n")
    rnd = random.Random(seed + 1)
    cases = []
    for g in ok:
        g = dict(g)
        g["alphabet"] = list(g["alphabet"])[:3] + [c for c in ("é", "中", "\U0001F600") if c not in g["alphabet"]][:2]
        cases += run_cases_for(g, rnd, 3 if tier == "quick" else 4, 20, 3)
    impl = run_bins(prefix, where, cases, profile="release")
    model = run_driver(sexp, cases)
    meta = {"suite": "runrel", "tier": tier, "seed": seed, "wall_s": time.time() - t0,
            "grammars": {g["gid"]: {"text": g["text"], "rules": g["rules"], "uses_stack": g["uses_stack"], "sexp": g["sexp"]} for g in ok},
            "rejected": [{"gid": g["gid"], "why": g["reject"][:200]} for g in bad]}
    _store(d, meta, cases, impl, model)
    return SuiteResult(d)


# ---------------------------------------------------------------------------------------------
# suite "raw": runtime generics instantiated directly (T-raw)

def strings(alpha, n):
    res = [""]
    fr = [""]
    for _ in range(n):
        fr = [s + c for s in fr for c in alpha]
        res += fr
    return res


def suite_raw(tier, seed):
    d = _cache_dir("raw", tier, seed)
    if os.path.exists(os.path.join(d, "meta.json")):
        return SuiteResult(d)
    t0 = time.time()
    ensure_driver()
    gs = rawgen.all_raw()
    ws = os.path.join(BUILD, "ws_raw")
    where = rawgen.emit_raw_workspace(gs, ws, NBINS)
    rc, err = corpus.build_workspace(ws)
    if rc != 0:
        raise RuntimeError("raw workspace does not build:\n" + err[-4000:])
    os.makedirs(CACHE, exist_ok=True)
    sexp = d + ".sexp"
    open(sexp, "w").write("\n".join(rawgen.grammar_sexp(g) for g in gs) + "\n")
    n = 4 if tier == "quick" else 6
    ins = strings("ab ", n)
    rnd = random.Random(seed)
    ins += ["".join(rnd.choice("ab éB\n\r") for _ in range(rnd.randint(n + 1, n + 4))) for _ in range(60)]
    ins8 = ins + (["".join(rnd.choice("ab ") for _ in range(rnd.randint(7, 8))) for _ in range(200)] if tier != "quick" else [])
    cases = []
    for g in gs:
        use = ins8 if g["gid"].startswith("rep_") else ins
        for r in g["rules"]:
            for s in use:
                for entry in ("parse_partial", "check_partial"):
                    cases.append((g["gid"], r["name"], entry, "str", 0, 0, s))
    # sub-inputs for the raw combinators too (Span / Position forms of short inputs)
    short = [s for s in strings("ab ", 3)] + ["aé b", "éa", "ab\n"]
    for g in gs:
        if g["gid"] in ("rep_misc", "leaf", "rep_s", "rep_null_o", "stackops_n"):
            for r in g["rules"]:
                for s in short:
                    bs = corpus.boundaries(s)
                    for a in bs:
                        if a > 0:
                            cases.append((g["gid"], r["name"], "parse_partial", "pos", a, 0, s))
                        for b in bs:
                            if b >= a and not (a == 0 and b == bs[-1]):
                                cases.append((g["gid"], r["name"], "parse_partial", "span", a, b, s))
                                cases.append((g["gid"], r["name"], "check_partial", "span", a, b, s))
    impl = run_bins("r", where, cases)
    model = run_driver(sexp, cases)
    meta = {"suite": "raw", "tier": tier, "seed": seed, "wall_s": time.time() - t0,
            "grammars": {g["gid"]: {"rules": [r["name"] for r in g["rules"]]} for g in gs}}
    _store(d, meta, cases, impl, model)
    _gc_cache(12)
    return SuiteResult(d)


def tie_diffs(result, keys, case_filter=None, limit=20):
    """Cases where the implementation and the model differ on the given observables."""
    n = 0
    diffs = []
    total = 0
    for c, io, mo in result.rows():
        if case_filter and not case_filter(c):
            continue
        total += 1
        bad = [k for k in keys if (k in mo or k in io) and io.get(k) != mo.get(k)]
        if mo.get("v") == "oof":
            continue
        if bad:
            n += 1
            if len(diffs) < limit:
                diffs.append({"case": list(c), "keys": bad, "impl": {k: io.get(k) for k in bad}, "model": {k: mo.get(k) for k in bad}})
    return total, n, diffs
