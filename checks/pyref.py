"""An independent (python) reference evaluator for the raw node terms of harness/rawgen.py:
plain PEG semantics with ordered choice, greedy bounded repetition, implicit skip between sequence
elements / repetition iterations when the flag is on, an immutable stack (full backtracking), and the
stack built-ins as the property texts of C06 / C19 state them.  Used as the implementation-level
oracle for the raw suites; it shares no code with the Lean model or the Rust runtime."""


class Ref:
    def __init__(self, grammar):
        self.rules = {r["name"]: r for r in grammar["rules"]}
        self.skipped = grammar["skipped"]
        self.nf = {it["name"]: it for it in grammar.get("nf", [])}
        self._first = {}
        self.watch = None       # id of the repetition term whose iterations are recorded
        self.trace = None       # [(skip spans or None, (start, end) or None)] of its last evaluation

    def flag(self, f, inh):
        return {"0": False, "1": True}.get(f, inh)

    def skip(self, s, p, stk):
        # the skip type is an atomic repetition: never fails
        r = self.ev(self.skipped, s, p, stk, False)
        return r if r else (p, stk)

    def ev(self, n, s, p, stk, inh):
        """returns (pos, stack) or None; positions are character indices into the python string.
        While a repetition is being watched (run_rule_items) a term that does not match contributes nothing to the value:
        whatever was recorded inside it is forgotten."""
        if self.watch is None:
            return self._ev(n, s, p, stk, inh)
        t0 = self.trace
        r = self._ev(n, s, p, stk, inh)
        if r is None:
            self.trace = t0
        return r

    def _ev(self, n, s, p, stk, inh):
        k = n[0]
        if k == "str":
            return (p + len(n[1]), stk) if s.startswith(n[1], p) else None
        if k == "insens":
            t = s[p:p + len(n[1])]
            def low(x):
                return "".join(chr(ord(c) + 32) if "A" <= c <= "Z" else c for c in x)
            return (p + len(n[1]), stk) if len(t) == len(n[1]) and low(t) == low(n[1]) else None
        if k == "range":
            return (p + 1, stk) if p < len(s) and n[1] <= s[p] <= n[2] else None
        if k == "any":
            return (p + 1, stk) if p < len(s) else None
        if k == "soi":
            return (p, stk) if p == 0 else None
        if k == "eoi":
            return (p, stk) if p == len(s) else None
        if k == "newline":
            for nl in ("\r\n", "\n", "\r"):
                if s.startswith(nl, p):
                    return (p + len(nl), stk)
            return None
        if k == "skipuntil":
            q = p
            while q < len(s):
                if any(s.startswith(x, q) for x in n[1]):
                    return (q, stk)
                q += 1
            return (len(s), stk)
        if k == "skipchars":
            return (p + n[1], stk) if p + n[1] <= len(s) else None
        if k == "seq":
            sk = self.flag(n[1], inh)
            cur = (p, stk)
            for j, x in enumerate(n[2]):
                if j > 0 and sk:
                    cur = self.skip(s, cur[0], cur[1])
                cur = self.ev(x, s, cur[0], cur[1], inh)
                if cur is None:
                    return None
            return cur
        if k == "choice":
            for x in n[1]:
                r = self.ev(x, s, p, stk, inh)
                if r:
                    return r
            return None
        if k == "opt":
            return self.ev(n[1], s, p, stk, inh) or (p, stk)
        if k == "rep":
            sk, mn, mx, x = self.flag(n[1], inh), n[2], n[3], n[4]
            cur, items = self.rep_run(1 if sk else 0, mx, x, s, p, stk, inh)
            if self.watch == id(n):
                self.trace = items
            return cur if len(items) >= mn else None
        if k == "atomicrepeat":
            cur = (p, stk)
            while True:
                r = self.ev(n[1], s, cur[0], cur[1], inh)
                if r is None or r == cur:
                    return cur
                cur = r
        if k == "pos":
            return (p, stk) if self.ev(n[1], s, p, stk, inh) else None
        if k == "neg":
            return None if self.ev(n[1], s, p, stk, inh) else (p, stk)
        if k == "push":
            r = self.ev(n[1], s, p, stk, inh)
            return (r[0], r[1] + (s[p:r[0]],)) if r else None
        if k == "peek":
            return (p + len(stk[-1]), stk) if stk and s.startswith(stk[-1], p) else None
        if k == "pop":
            return (p + len(stk[-1]), stk[:-1]) if stk and s.startswith(stk[-1], p) else None
        if k == "drop":
            return (p, stk[:-1]) if stk else None
        if k in ("peekall", "popall"):
            t = "".join(reversed(stk))
            if s.startswith(t, p):
                return (p + len(t), stk if k == "peekall" else ())
            return None
        if k == "peekslice":
            ln = len(stk)
            def norm(i):
                j = ln + i if i < 0 else i
                return j if 0 <= j <= ln else None
            lo = norm(n[1])
            hi = ln if n[2] is None else norm(n[2])
            if lo is None or hi is None:
                return None
            t = "".join(stk[lo:hi]) if hi > lo else ""
            return (p + len(t), stk) if s.startswith(t, p) else None
        if k == "ref":
            r = self.rules[n[1]]
            inh2 = self.flag(n[2], inh)
            return self.ev(r["body"], s, p, stk, inh2)
        if k == "array":
            cur = (p, stk)
            for _ in range(n[1]):
                cur = self.ev(n[2], s, cur[0], cur[1], inh)
                if cur is None:
                    return None
            return cur
        if k == "pair":
            r = self.ev(n[1], s, p, stk, inh)
            return self.ev(n[2], s, r[0], r[1], inh) if r else None
        if k == "empty":
            return (p, stk)
        if k == "alwaysfail":
            return None
        raise ValueError(k)

    # ---- counted repetition: the iterations themselves (C19: element count, element spans, skipped blanks)

    def has_span(self, x):
        """whether the value of element term `x` carries a span of the text it matched (a rule struct that is not silent,
        PEEK, PEEK_ALL, skip-until, skip-n); POP / POP_ALL carry the span of the popped entry: not known here"""
        if x[0] == "ref":
            return self.rules[x[1]]["emit"] in ("Span", "Both")
        return x[0] in ("peek", "peekall", "skipuntil", "skipchars")

    def skip_spans(self, s, p, stk):
        """one run of the skip type: (pos, stack), spans of the skipped pieces (None when they carry none)"""
        n = self.skipped
        if n[0] != "atomicrepeat":
            return self.skip(s, p, stk), None
        cur, spans = (p, stk), []
        while True:
            r = self.ev(n[1], s, cur[0], cur[1], False)
            if r is None or r == cur:
                return cur, (spans if self.has_span(n[1]) else None)
            spans.append((cur[0], r[0]))
            cur = r

    def rep_run(self, nskip, mx, x, s, p, stk, inh):
        """greedy: iterations of `x`, before every iteration but the first `nskip` runs of the skip type; an iteration that does
        not match gives back its skips and its stack effects; at most `mx` iterations.  Returns ((pos, stack), iterations)."""
        cur = (p, stk)
        items = []
        while mx is None or len(items) < mx:
            q = cur
            spans = []
            if items:
                for _ in range(nskip):
                    q, sp = self.skip_spans(s, q[0], q[1])
                    spans = None if (sp is None or spans is None) else spans + sp
            r = self.ev(x, s, q[0], q[1], inh)
            if r is None:
                break
            if r == cur and mx is None:
                raise RuntimeError("non-progressing repetition")
            items.append((spans, (q[0], r[0]) if self.has_span(x) else None))
            cur = r
        return cur, items

    def first_rep(self, n, seen=()):
        """the first counted repetition of a term in pre-order, following rule references"""
        k = n[0]
        if k == "rep":
            return n
        if k == "ref":
            if n[1] in seen or n[1] not in self.rules:
                return None
            return self.first_rep(self.rules[n[1]]["body"], seen + (n[1],))
        kids = {"seq": lambda: n[2], "choice": lambda: n[1], "opt": lambda: [n[1]], "atomicrepeat": lambda: [n[1]],
                "pos": lambda: [n[1]], "push": lambda: [n[1]], "array": lambda: [n[2]], "pair": lambda: [n[1], n[2]]}
        for c in kids.get(k, lambda: [])():
            r = self.first_rep(c, seen)
            if r is not None:
                return r
        return None

    @staticmethod
    def _bytes(s, p):
        return len(s[:p].encode("utf-8"))

    def _items_bytes(self, s, items):
        conv = lambda sp: None if sp is None else (self._bytes(s, sp[0]), self._bytes(s, sp[1]))
        return [(None if sk is None else [conv(x) for x in sk], conv(el)) for sk, el in items]

    def run_rule_items(self, name, s):
        """as run_rule, plus the iterations of the first counted repetition of the rule (None if it has none):
        [(spans of the blanks skipped before the element | None, span of the element | None)], byte offsets"""
        if name not in self._first:
            self._first[name] = self.first_rep(("ref", name, "1"))
        tgt = self._first[name]
        self.watch, self.trace = (id(tgt) if tgt is not None else None), None
        r = self.ev(("ref", name, "1"), s, 0, (), True)
        self.watch = None
        if r is None:
            return None
        return self._bytes(s, r[0]), r[1], (None if tgt is None or self.trace is None else self._items_bytes(s, self.trace))

    def run_nf(self, name, s):
        """a direct call of the never-failing repetition item `name` after its prefix term: None when the prefix does not match,
        else (byte offset after the prefix, byte end, stack texts, iterations)"""
        it = self.nf[name]
        r = self.ev(it["pre"], s, 0, (), True)
        if r is None:
            return None
        cur, items = self.rep_run(it["k"], it["max"], it["elem"], s, r[0], r[1], False)
        return self._bytes(s, r[0]), self._bytes(s, cur[0]), cur[1], self._items_bytes(s, items)

    def run_rule_full(self, name, s):
        """entry `rules::name::<'i, 1>::try_parse(s)` of a rule whose `$ignored` is a never-failing repetition: the rule, then
        (unless the rule is atomic) that repetition, then end of input.  Returns the stack texts or None."""
        rule = self.rules[name]
        r = self.ev(("ref", name, "1"), s, 0, (), True)
        if r is None:
            return None
        if rule["atom"] != "true":
            ig = rule["ignored"]
            r, _ = self.rep_run(ig["k"], ig["max"], ig["elem"], s, r[0], r[1], False)
        return r[1] if r[0] == len(s) else None

    def run_rule(self, name, s):
        """entry as `rules::name::<'i, 1>::try_parse_partial(s)`: returns (byte end, stack texts) or None"""
        r = self.ev(("ref", name, "1"), s, 0, (), True)
        if r is None:
            return None
        return len(s[:r[0]].encode("utf-8")), r[1]


# ---------------------------------------------------------------------------------------------------------------------
# reading the `{:?}` text the runner prints: the element list of a counted repetition as the IMPLEMENTATION built it

import re as _re

_TOK = _re.compile(r'''"(?:[^"\\]|\\.)*"|'(?:[^'\\]|\\u\{[0-9a-fA-F]+\}|\\.)'|[A-Za-z_#][A-Za-z0-9_#]*|\d+|[{}()\[\],:]''')


def parse_debug(text):
    """Rust `{:?}` (not pretty) -> tree: ("struct", name, [(field, tree)]) | ("tuple", name, [tree]) | ("list", [tree]) | ("atom", text)"""
    toks = _TOK.findall(text)
    pos = 0

    def seq(close):
        nonlocal pos
        out = []
        while toks[pos] != close:
            out.append(value())
            if toks[pos] == ",":
                pos += 1
        pos += 1
        return out

    def value():
        nonlocal pos
        t = toks[pos]
        pos += 1
        if t == "[":
            return ("list", seq("]"))
        if t == "(":
            return ("tuple", "", seq(")"))
        if t[0].isalpha() or t[0] in "_#":
            if pos < len(toks) and toks[pos] == "{":
                pos += 1
                fields = []
                while toks[pos] != "}":
                    f = toks[pos]
                    pos += 2                      # field name, ':'
                    fields.append((f, value()))
                    if toks[pos] == ",":
                        pos += 1
                pos += 1
                return ("struct", t, fields)
            if pos < len(toks) and toks[pos] == "(":
                pos += 1
                return ("tuple", t, seq(")"))
        return ("atom", t)

    tree = value()
    if pos != len(toks):
        raise ValueError("trailing text in Debug output")
    return tree


def _kids(t):
    if t[0] == "struct":
        return [v for _, v in t[2]]
    if t[0] == "tuple":
        return t[2]
    if t[0] == "list":
        return t[1]
    return []


def _span_of(t):
    if t[0] == "struct":
        for f, v in t[2]:
            if f == "span" and v[0] == "struct" and v[1] == "Span":
                d = dict(v[2])
                return int(d["start"][1]), int(d["end"][1])
    return None


def _outer_spans(t):
    sp = _span_of(t)
    if sp is not None:
        return [sp]
    return [x for c in _kids(t) for x in _outer_spans(c)]


def _first_rep(t):
    if t[0] == "struct" and t[1] in ("RepeatMin", "RepeatMinMax") and len(t[2]) == 1 and t[2][0][0] == "content" and t[2][0][1][0] == "list":
        return t[2][0][1][1]
    for c in _kids(t):
        r = _first_rep(c)
        if r is not None:
            return r
    return None


def debug_rep_items(text):
    """The first `RepeatMin` / `RepeatMinMax` of a `{:?}` text in pre-order: None, or its elements as
    [(spans found in the `skipped` part, span of `matched` | None)] (`Skipped`'s Debug prints `matched` alone when SKIP = 0)."""
    els = _first_rep(parse_debug(text))
    if els is None:
        return None
    out = []
    for e in els:
        if e[0] == "struct" and e[1] == "Skipped" and [f for f, _ in e[2]] == ["skipped", "matched"]:
            out.append(([x for c in _kids(e[2][0][1]) for x in _outer_spans(c)], _span_of(e[2][1][1])))
        else:
            out.append(([], _span_of(e)))
    return out


def render_rep_items(items):
    """the canonical text of Driver/NF.lean `repObs`: {"n": .., "items": .., "skips": ..}"""
    if items is None:
        return {"n": "-"}
    sp = lambda x: "?" if x is None else f"{x[0]}-{x[1]}"
    return {"n": str(len(items)), "items": "[" + ",".join(sp(el) for _, el in items) + "]",
            "skips": "[" + "|".join("+".join(sp(x) for x in sk) for sk, _ in items) + "]"}
