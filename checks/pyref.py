"""An independent (python) reference evaluator for the raw node terms of harness/rawgen.py:
plain PEG semantics with ordered choice, greedy bounded repetition, implicit skip between sequence
elements / repetition iterations when the flag is on, an immutable stack (full backtracking), and the
stack built-ins as the property texts of C06 / C19 state them.  Used as the implementation-level
oracle for the raw suites; it shares no code with the Lean model or the Rust runtime."""


class Ref:
    def __init__(self, grammar):
        self.rules = {r["name"]: r for r in grammar["rules"]}
        self.skipped = grammar["skipped"]

    def flag(self, f, inh):
        return {"0": False, "1": True}.get(f, inh)

    def skip(self, s, p, stk):
        # the skip type is an atomic repetition: never fails
        r = self.ev(self.skipped, s, p, stk, False)
        return r if r else (p, stk)

    def ev(self, n, s, p, stk, inh):
        """returns (pos, stack) or None; positions are character indices into the python string"""
        k = n[0]
        if k == "str":
            return (p + len(n[1]), stk) if s.startswith(n[1], p) else None
        if k == "insens":
            t = s[p:p + len(n[1])]
            def low(x):
                return "".join(chr(ord(c) + 32) if "A" <= c <= "Z" else c for c in x)
            return (p + len(n[1]), stk) if len(t) == len(n[1]) and low(t) == low(n[1]) else None
        if k == "range":
            return (p + 1, stk) if p < len(s) and n[1] <= s[p] <= n[2] else None
        if k == "any":
            return (p + 1, stk) if p < len(s) else None
        if k == "soi":
            return (p, stk) if p == 0 else None
        if k == "eoi":
            return (p, stk) if p == len(s) else None
        if k == "newline":
            for nl in ("\r\n", "\n", "\r"):
                if s.startswith(nl, p):
                    return (p + len(nl), stk)
            return None
        if k == "skipuntil":
            q = p
            while q < len(s):
                if any(s.startswith(x, q) for x in n[1]):
                    return (q, stk)
                q += 1
            return (len(s), stk)
        if k == "skipchars":
            return (p + n[1], stk) if p + n[1] <= len(s) else None
        if k == "seq":
            sk = self.flag(n[1], inh)
            cur = (p, stk)
            for j, x in enumerate(n[2]):
                if j > 0 and sk:
                    cur = self.skip(s, cur[0], cur[1])
                cur = self.ev(x, s, cur[0], cur[1], inh)
                if cur is None:
                    return None
            return cur
        if k == "choice":
            for x in n[1]:
                r = self.ev(x, s, p, stk, inh)
                if r:
                    return r
            return None
        if k == "opt":
            return self.ev(n[1], s, p, stk, inh) or (p, stk)
        if k == "rep":
            sk, mn, mx, x = self.flag(n[1], inh), n[2], n[3], n[4]
            cur = (p, stk)
            cnt = 0
            while mx is None or cnt < mx:
                q = cur
                if cnt > 0 and sk:
                    q = self.skip(s, q[0], q[1])
                r = self.ev(x, s, q[0], q[1], inh)
                if r is None:
                    break
                if r == cur and mx is None:
                    raise RuntimeError("non-progressing repetition")
                cur = r
                cnt += 1
            return cur if cnt >= mn else None
        if k == "atomicrepeat":
            cur = (p, stk)
            while True:
                r = self.ev(n[1], s, cur[0], cur[1], inh)
                if r is None or r == cur:
                    return cur
                cur = r
        if k == "pos":
            return (p, stk) if self.ev(n[1], s, p, stk, inh) else None
        if k == "neg":
            return None if self.ev(n[1], s, p, stk, inh) else (p, stk)
        if k == "push":
            r = self.ev(n[1], s, p, stk, inh)
            return (r[0], r[1] + (s[p:r[0]],)) if r else None
        if k == "peek":
            return (p + len(stk[-1]), stk) if stk and s.startswith(stk[-1], p) else None
        if k == "pop":
            return (p + len(stk[-1]), stk[:-1]) if stk and s.startswith(stk[-1], p) else None
        if k == "drop":
            return (p, stk[:-1]) if stk else None
        if k in ("peekall", "popall"):
            t = "".join(reversed(stk))
            if s.startswith(t, p):
                return (p + len(t), stk if k == "peekall" else ())
            return None
        if k == "peekslice":
            ln = len(stk)
            def norm(i):
                j = ln + i if i < 0 else i
                return j if 0 <= j <= ln else None
            lo = norm(n[1])
            hi = ln if n[2] is None else norm(n[2])
            if lo is None or hi is None:
                return None
            t = "".join(stk[lo:hi]) if hi > lo else ""
            return (p + len(t), stk) if s.startswith(t, p) else None
        if k == "ref":
            r = self.rules[n[1]]
            inh2 = self.flag(n[2], inh)
            return self.ev(r["body"], s, p, stk, inh2)
        if k == "array":
            cur = (p, stk)
            for _ in range(n[1]):
                cur = self.ev(n[2], s, cur[0], cur[1], inh)
                if cur is None:
                    return None
            return cur
        if k == "pair":
            r = self.ev(n[1], s, p, stk, inh)
            return self.ev(n[2], s, r[0], r[1], inh) if r else None
        if k == "empty":
            return (p, stk)
        if k == "alwaysfail":
            return None
        raise ValueError(k)

    def run_rule(self, name, s):
        """entry as `rules::name::<'i, 1>::try_parse_partial(s)`: returns (byte end, stack texts) or None"""
        r = self.ev(("ref", name, "1"), s, 0, (), True)
        if r is None:
            return None
        return len(s[:r[0]].encode("utf-8")), r[1]
