"""C16 — generated getters (`#[emit_rule_reference]`) return exactly the referenced sub-nodes that matched.

Ties
* T-gen   : the accessor functions /repo's generator emits, read back STRUCTURALLY by harness/getters_tool (the generator
            run as a library; the body is evaluated symbolically into its chain of field / method hops, so variable names,
            `; res`, `.map` vs `.and_then(Some)` do not matter): rule, name, return type shape (Option / Vec / tuple, rule
            names), getter path (hops, indices, flatten flags, tuple shape), boxed content — versus the Lean model's
            `genGetters` trees (`model_driver`: `getters list`), for four derivations: optimized AST, `pest_optimizer =
            false`, and both with `box_only_if_needed` (expected boxing = port of `collect_reachability`);
* T-run   : a workspace generated FROM THE MODEL'S LISTING calls every accessor on every accepted input, flattens the
            result (nested Option / Vec / tuples) to the list of references and prints each reference as its token
            list, and ALSO prints the unflattened result in a canonical rendering; the model prints `flatten (evalGetter …)`
            and the structured `evalGetter` result the same way (`getters run`); both are tied.  A getter the model lists
            and the generator does not emit is a build failure; one the generator emits and the model does not
            list is a T-gen disagreement.
Oracles on the implementation (independent of the path code)
* SPEC    : an independent PEG evaluator in this file (dynamic atomicity, implicit skipping, immutable stack; a port
            of the round-0 `direct_refs`) records the rule references the rule's own expression evaluates directly
            on the successful path — also under `&`, never under `!`, never the implicit skips — with their spans;
            flattened getter spans must be exactly those (for silent rules and built-ins, which have no span of
            their own: exactly as many).  Cases where this evaluator and the implementation differ on verdict / end
            offset are not C16's business (C01) and are counted as undecided.
* SLOTS   : the unflattened result (`st`: `N`, `S(..)`, `V{..;..}`, `T{..;..}` with a token list per reference) is laid over
            the DECLARED return type of the accessor (taken from the generator's output, public API): every reference
            leaf of the type is a slot; slot k (left to right) must hold exactly the matches the evaluator recorded for
            the k-th mention SITE of x in the rule's expression (each `Ident` occurrence is numbered), and the chain of
            Option / Vec / tuple around slot k must be the one the position of that mention calls for
            (`mention_sites`, stated on the expression only).  This is what tells `(None, Some)` from `(Some, None)`.
* TOKENS  : model-free and evaluator-free: when the rule mentions no silent rule and `x` is a non-silent rule not
            mentioned under `&` (and is not an implicit-skip rule), the x-labelled children of the rule's own token
            (`as_token`) are exactly the direct references: getter spans must equal them.
"""
import concurrent.futures, json, os, random, re, subprocess, time
from . import common, suites
from .common import BUILD, CACHE, LEAN, VERIF
import corpus, getters as G

NPROC = min(16, os.cpu_count() or 4)


# ---------------------------------------------------------------------------------------------
# independent evaluator (SPEC oracle)

class Diverge(Exception):
    pass


class Unsupported(Exception):
    pass


ASCII_CLASS = {
    "ASCII_DIGIT": lambda c: 48 <= c <= 57,
    "ASCII_NONZERO_DIGIT": lambda c: 49 <= c <= 57,
    "ASCII_BIN_DIGIT": lambda c: c in (48, 49),
    "ASCII_OCT_DIGIT": lambda c: 48 <= c <= 55,
    "ASCII_HEX_DIGIT": lambda c: 48 <= c <= 57 or 97 <= c <= 102 or 65 <= c <= 70,
    "ASCII_ALPHA_LOWER": lambda c: 97 <= c <= 122,
    "ASCII_ALPHA_UPPER": lambda c: 65 <= c <= 90,
    "ASCII_ALPHA": lambda c: 97 <= c <= 122 or 65 <= c <= 90,
    "ASCII_ALPHANUMERIC": lambda c: 97 <= c <= 122 or 65 <= c <= 90 or 48 <= c <= 57,
    "ASCII": lambda c: c <= 0x7f,
}


_UNI = None


def uni_table():
    """{property: set of characters} from build/uni_table.tsv (written by corpus.ensure_uni_table from pest's tables)."""
    global _UNI
    if _UNI is None:
        _UNI = {}
        path = os.environ.get("VERIF_UNI_TABLE") or os.path.join(BUILD, "uni_table.tsv")
        if hasattr(corpus, "ensure_uni_table") and not os.path.exists(path):
            path = corpus.ensure_uni_table()
        if os.path.exists(path):
            for line in open(path):
                f = line.rstrip("\n").split("\t")
                if len(f) == 2 and not f[0].startswith("#"):
                    _UNI[f[0]] = set(corpus.unhex(f[1]))
    return _UNI


class Peg:
    """Reference PEG semantics of a pest grammar over the S-expressions of `dump_ast`."""

    def __init__(self, sexp, variant):
        sx = corpus.parse_sexp(sexp)
        k = 3 if variant.startswith("opt") else 4
        # every `Ident` occurrence of a rule's expression gets its mention-site number (left to right)
        self.rules = {r[1]: (r[2], annotate(r[k], [0])) for r in sx[2:]}
        self.has_w = "WHITESPACE" in self.rules
        self.has_c = "COMMENT" in self.rules

    def direct_refs(self, rule, text, limit=400000):
        """None if the rule fails, else (end, [(name, start, end, mention site)])."""
        self.b = text.encode("utf-8")
        self.steps, self.limit = 0, limit
        self.refs, self.depth, self.neg = [], 0, 0
        r = self.call(rule, 0, (), True)
        return None if r is None else (r[0], list(self.refs))

    def tick(self):
        self.steps += 1
        if self.steps > self.limit:
            raise Diverge()

    def char_at(self, pos):
        b = self.b
        if pos >= len(b):
            return None
        c = b[pos]
        n = 1 if c < 0x80 else 2 if c < 0xE0 else 3 if c < 0xF0 else 4
        return ord(b[pos:pos + n].decode("utf-8")), pos + n

    def mchar(self, pos, pred):
        r = self.char_at(pos)
        return r[1] if r and pred(r[0]) else None

    def boundary(self, pos):
        return pos == len(self.b) or (pos < len(self.b) and (self.b[pos] & 0xC0) != 0x80)

    def mstr(self, pos, pat):
        return pos + len(pat) if self.b.startswith(pat, pos) else None

    def call(self, name, pos, st, na, site=None):
        self.tick()
        if name in self.rules:
            kind, expr = self.rules[name]
            if name in ("WHITESPACE", "COMMENT"):
                body_na = False
            elif kind in ("atomic", "compound"):
                body_na = False
            elif kind == "nonatomic":
                body_na = True
            else:
                body_na = na
            mark = len(self.refs)
            self.depth += 1
            try:
                r = self.ev(expr, pos, st, body_na)
            finally:
                self.depth -= 1
            if r is None:
                del self.refs[mark:]
                return None
        else:
            r = self.builtin(name, pos, st)
            if r is None:
                return None
        if self.depth == 1 and self.neg == 0:
            self.refs.append((name, pos, r[0], site))
        return r

    def builtin(self, name, pos, st):
        b = self.b
        span = lambda s: b[s[0]:s[1]]
        if name == "ANY":
            p = self.mchar(pos, lambda c: True)
        elif name == "SOI":
            p = pos if pos == 0 else None
        elif name == "EOI":
            p = pos if pos == len(b) else None
        elif name == "NEWLINE":
            p = self.mstr(pos, b"\r\n") or self.mstr(pos, b"\n") or self.mstr(pos, b"\r")
        elif name in ASCII_CLASS:
            p = self.mchar(pos, ASCII_CLASS[name])
        elif name == "PEEK":
            p = self.mstr(pos, span(st[-1])) if st else None
        elif name == "POP":
            if not st:
                return None
            p = self.mstr(pos, span(st[-1]))
            st = st[:-1]
        elif name == "DROP":
            if not st:
                return None
            p, st = pos, st[:-1]
        elif name in ("PEEK_ALL", "POP_ALL"):
            p = pos
            for s in reversed(st):
                p = self.mstr(p, span(s))
                if p is None:
                    break
            if p is not None and name == "POP_ALL":
                st = ()
        elif name in ("WHITESPACE", "COMMENT"):
            p = None
        elif name in uni_table():
            # pest's own Unicode tables restricted to corpus.UNI_ALPHABET (external data); other characters: undecided
            r = self.char_at(pos)
            if r and chr(r[0]) not in corpus.UNI_ALPHABET:
                raise Unsupported(name + " outside the table's alphabet")
            p = r[1] if r and chr(r[0]) in uni_table()[name] else None
        else:
            raise Unsupported(name)
        return None if p is None else (p, st)

    def skip(self, pos, st, na):
        if not na or not (self.has_w or self.has_c):
            return pos, st
        self.neg += 1          # implicit skips are not mentions
        try:
            while True:
                self.tick()
                r = self.call("WHITESPACE", pos, st, False) if self.has_w else None
                if r is None and self.has_c:
                    r = self.call("COMMENT", pos, st, False)
                if r is None or r[0] == pos and r[1] == st:
                    break
                pos, st = r
        finally:
            self.neg -= 1
        return pos, st

    def rep(self, e, lo, hi, pos, st, na):
        n = 0
        while hi is None or n < hi:
            self.tick()
            mark = len(self.refs)
            p2, s2 = (pos, st) if n == 0 else self.skip(pos, st, na)
            r = self.ev(e, p2, s2, na)
            if r is None:
                del self.refs[mark:]
                break
            pos, st = r
            n += 1
        return (pos, st) if n >= lo else None

    def ev(self, e, pos, st, na):
        self.tick()
        mark = len(self.refs)
        r = self.ev1(e, pos, st, na)
        if r is None:
            del self.refs[mark:]
        return r

    def ev1(self, e, pos, st, na):
        k = e[0]
        b = self.b
        if k == "str":
            p = self.mstr(pos, corpus.unhex(e[1]).encode("utf-8"))
            return None if p is None else (p, st)
        if k == "insens":
            pat = corpus.unhex(e[1]).encode("utf-8")
            seg = b[pos:pos + len(pat)]
            ok = len(seg) == len(pat) and self.boundary(pos + len(pat)) and seg.lower() == pat.lower()
            return (pos + len(pat), st) if ok else None
        if k == "range":
            lo, hi = int(e[1]), int(e[2])
            p = self.mchar(pos, lambda c: lo <= c <= hi)
            return None if p is None else (p, st)
        if k == "ident":
            return self.call(e[1], pos, st, na, e[2] if len(e) > 2 else None)
        if k == "peekslice":
            n = len(st)

            def norm(i):
                if i > n:
                    return None
                if i >= 0:
                    return i
                return n + i if n + i >= 0 else None
            lo = norm(int(e[1]))
            hi = n if e[2] == "-" else norm(int(e[2]))
            if lo is None or hi is None:
                return None
            p = pos
            if hi > lo:
                for s in st[lo:hi]:
                    p = self.mstr(p, b[s[0]:s[1]])
                    if p is None:
                        return None
            return (p, st)
        if k == "pos":
            return None if self.ev(e[1], pos, st, na) is None else (pos, st)
        if k == "neg":
            mark = len(self.refs)
            self.neg += 1
            try:
                r = self.ev(e[1], pos, st, na)
            finally:
                self.neg -= 1
            del self.refs[mark:]
            return (pos, st) if r is None else None
        if k == "seq":
            r = self.ev(e[1], pos, st, na)
            if r is None:
                return None
            p, s = self.skip(r[0], r[1], na)
            return self.ev(e[2], p, s, na)
        if k == "choice":
            r = self.ev(e[1], pos, st, na)
            return r if r is not None else self.ev(e[2], pos, st, na)
        if k == "opt":
            r = self.ev(e[1], pos, st, na)
            return r if r is not None else (pos, st)
        if k == "rep":
            return self.rep(e[1], 0, None, pos, st, na)
        if k == "reponce":
            return self.rep(e[1], 1, None, pos, st, na)
        if k == "repexact":
            return self.rep(e[1], int(e[2]), int(e[2]), pos, st, na)
        if k == "repmin":
            return self.rep(e[1], int(e[2]), None, pos, st, na)
        if k == "repmax":
            return self.rep(e[1], 0, int(e[2]), pos, st, na)
        if k == "repminmax":
            return self.rep(e[1], int(e[2]), int(e[3]), pos, st, na)
        if k == "skip":
            needles = [corpus.unhex(h).encode("utf-8") for h in e[1:]]
            p = pos
            while p < len(b):
                if self.boundary(p) and any(b.startswith(nd, p) for nd in needles):
                    break
                p += 1
            return (p, st)
        if k == "push":
            r = self.ev(e[1], pos, st, na)
            return None if r is None else (r[0], r[1] + ((pos, r[0]),))
        if k == "restore":
            return self.ev(e[1], pos, st, na)
        raise Unsupported(k)


def mentions(e, under_pos=False, out=None):
    """[(name, under a positive predicate?)] for the identifiers outside negative predicates."""
    out = [] if out is None else out
    k = e[0]
    if k == "ident":
        out.append((e[1], under_pos))
    elif k == "neg":
        pass
    elif k == "pos":
        mentions(e[1], True, out)
    elif k in ("seq", "choice"):
        mentions(e[1], under_pos, out)
        mentions(e[2], under_pos, out)
    elif k in ("opt", "rep", "reponce", "repexact", "repmin", "repmax", "repminmax", "push", "restore"):
        mentions(e[1], under_pos, out)
    return out


def annotate(e, counter):
    """Copy of the expression with every identifier numbered: ['ident', name, site]."""
    if not isinstance(e, list):
        return e
    if e[0] == "ident":
        counter[0] += 1
        return ["ident", e[1], counter[0] - 1]
    return [e[0]] + [annotate(c, counter) for c in e[1:]]


REPS = ("rep", "reponce", "repexact", "repmin", "repmax", "repminmax")


def spine(e, kind):
    out = []
    while e[0] == kind:
        out.append(e[1])
        e = e[2]
    out.append(e)
    return out


def collapse(chain):
    out = []
    for c in chain:
        if c == "O" and out and out[-1] == "O":
            continue
        out.append(c)
    return tuple(out)


def mention_sites(expr, x):
    """The mention sites of `x` outside negative predicates, in left-to-right order, each with the wrapper chain
    the property text asks for, stated on the expression alone: `V` for every enclosing repetition, `O` for every
    enclosing `?` and for being inside an alternative of a choice (nested Options are ONE Option unless a Vec or a
    tuple sits in between), `T` where the elements of one sequence / the alternatives of one choice mention `x`
    more than once between them (elements = what pest's AST chains to the right).  No indices, no paths."""
    out = []

    def has(e):
        return any(n == x for n, _ in mentions(e))

    def walk(e, chain):
        k = e[0]
        if k == "ident":
            if e[1] == x:
                out.append((e[2], collapse(chain)))
        elif k == "neg":
            return
        elif k in ("pos", "push", "restore"):
            walk(e[1], chain)
        elif k == "opt":
            walk(e[1], chain + ["O"])
        elif k in REPS:
            walk(e[1], chain + ["V"])
        elif k in ("seq", "choice"):
            els = spine(e, k)
            c2 = chain + (["T"] if sum(1 for el in els if has(el)) >= 2 else [])
            for el in els:
                walk(el, c2 + (["O"] if k == "choice" else []))
    walk(expr, [])
    return out


def parse_type(t):
    """Declared return type as getters_tool / the model print it, `(ref x) | (opt T) | (vec T) | (tuple T …)`
    -> ('L',) | ('O', t) | ('V', t) | ('T', [t…])."""
    def conv(e):
        assert isinstance(e, list) and e, e
        if e[0] == "ref":
            return ("L",)
        if e[0] == "opt":
            return ("O", conv(e[1]))
        if e[0] == "vec":
            return ("V", conv(e[1]))
        assert e[0] == "tuple" and len(e) >= 3, e
        return ("T", [conv(c) for c in e[1:]])
    return conv(corpus.parse_sexp(t))


def norm_path(p):
    """Canonical form of a getter path S-expression: `.content` / `.content.i.matched` hops in front of a tuple are moved
    into its components (same function, same type; getters_tool sees them there because a tuple expression evaluates every
    component from the same `res`)."""
    def dist(head, inner):
        if inner[0] == "tuple":
            return ["tuple"] + [dist(head, c) for c in inner[1:]]
        return head + [inner]

    def go(e):
        k = e[0]
        if k == "rule":
            return ["rule"]
        if k == "content":
            return dist(["content"], go(e[1]))
        if k == "seq":
            return dist(["seq", e[1]], go(e[2]))
        if k == "opt":
            return ["opt", e[1], go(e[2])]
        if k == "choice":
            return ["choice", e[1], e[2], go(e[3])]
        if k == "rep":
            return ["rep", go(e[1])]
        if k == "tuple":
            return ["tuple"] + [go(c) for c in e[1:]]
        return e
    try:
        return go(corpus.parse_sexp(p))
    except (IndexError, TypeError):
        return ["unparsable", p[:200]]


def not_boxed(sexp, variant):
    """Port of `collect_reachability` (generator/src/graph.rs): the rules that do not (transitively, as that fix-point computes
    it) use themselves keep an unboxed content field under `#[box_only_if_needed]`."""
    sx = corpus.parse_sexp(sexp)
    k = 3 if variant.startswith("opt") else 4
    rules = [(r[1], r[2], r[k]) for r in sx[2:]]
    names = {r[0] for r in rules}

    def idents(e, out):
        if isinstance(e, list):
            if e[0] == "ident":
                out.add(e[1])
            else:
                for c in e[1:]:
                    idents(c, out)
    res = {}
    for name, kind, expr in rules:
        used = set()
        if kind == "normal":
            used |= {n for n in ("COMMENT", "WHITESPACE") if n in names}
        idents(expr, used)
        res[name] = used
    for _ in range(len(rules)):
        updated = False
        for name, _, _ in rules:
            if name in res:
                cur = res.pop(name)
                new = set(cur)
                for ref in cur:
                    if ref in res:
                        new |= res[ref]
                if len(new) > len(cur):
                    updated = True
                if name not in new:
                    res[name] = new
        if not updated:
            break
    return set(res)


def type_leaves(ty, chain=()):
    """[wrapper chain of every reference leaf, left to right]"""
    if ty[0] == "L":
        return [tuple(chain)]
    if ty[0] in ("O", "V"):
        return type_leaves(ty[1], chain + (ty[0],))
    out = []
    for c in ty[1]:
        out += type_leaves(c, chain + ("T",))
    return out


def parse_struct(txt):
    """`N` | `S(..)` | `V{..;..}` | `T{..;..}` | token list  ->  None-marker tree: ('N',) ('S', v) ('V', [..]) ('T', [..]) ('L', text)"""
    pos = 0

    def rd():
        nonlocal pos
        c = txt[pos]
        if c == "N":
            pos += 1
            return ("N",)
        if c == "S":
            pos += 2
            v = rd()
            assert txt[pos] == ")"
            pos += 1
            return ("S", v)
        if c in "VT":
            pos += 2
            items = []
            if txt[pos] != "}":
                items.append(rd())
                while txt[pos] == ";":
                    pos += 1
                    items.append(rd())
            assert txt[pos] == "}"
            pos += 1
            return (c, items)
        assert c == "[", txt[pos:]
        e = txt.index("]", pos)
        leaf = txt[pos:e + 1]
        pos = e + 1
        return ("L", leaf)
    r = rd()
    assert pos == len(txt), txt[pos:]
    return r


def slots_of(ty, val):
    """Distribute the references of a structured value over the reference leaves of its declared type:
    [[leaf text, …] per type leaf, left to right]; raises AssertionError when the value does not inhabit the type."""
    n = len(type_leaves(ty))
    slots = [[] for _ in range(n)]

    def go(ty, val, base):
        if ty[0] == "L":
            assert val[0] == "L", (ty, val)
            slots[base].append(val[1])
        elif ty[0] == "O":
            assert val[0] in ("N", "S"), (ty, val)
            if val[0] == "S":
                go(ty[1], val[1], base)
        elif ty[0] == "V":
            assert val[0] == "V", (ty, val)
            for v in val[1]:
                go(ty[1], v, base)
        else:
            assert val[0] == "T" and len(val[1]) == len(ty[1]), (ty, val)
            for t, v in zip(ty[1], val[1]):
                go(t, v, base)
                base += len(type_leaves(t))
    go(ty, val, 0)
    return slots


# ---------------------------------------------------------------------------------------------
# the suite (cached)

def machinery_key():
    H = os.path.join(VERIF, "harness")
    return common.tree_hash([os.path.join(H, "getters.py"), os.path.join(H, "getters_tool", "src"), os.path.join(H, "getters_tool", "Cargo.toml"),
                             os.path.join(VERIF, "checks", "c16.py"), os.path.join(LEAN, "PestTyped", "Model", "Getters.lean"),
                             os.path.join(LEAN, "Driver", "Getters.lean")]) + "-" + common.machinery_key()


def run_model(sexp_path, lines, nproc=NPROC):
    if not lines:
        return []
    k = max(1, min(nproc * 2, len(lines) // 500 + 1))
    size = (len(lines) + k - 1) // k
    chunks = [lines[i:i + size] for i in range(0, len(lines), size)]

    def run(chunk):
        # the driver binary is shared and may be re-linked by a concurrent `lake build` (exec fails / dies at start-up):
        # an incomplete answer is retried, never accepted
        got = []
        for attempt in range(4):
            try:
                p = subprocess.run([G.DRIVER, sexp_path], input="\n".join(chunk) + "\n", capture_output=True, text=True)
                got = p.stdout.split("\n")
                if got and got[-1] == "":
                    got.pop()
                if p.returncode == 0 and len(got) >= len(chunk):
                    break
            except OSError:
                got = []
            time.sleep(3 + 5 * attempt)
        got += ["v=missing"] * (len(chunk) - len(got))
        return got[:len(chunk)]
    out = []
    with concurrent.futures.ThreadPoolExecutor(nproc) as ex:
        for res in ex.map(run, chunks):
            out.extend(res)
    return out


def suite_getters(tier, seed):
    d = os.path.join(CACHE, f"c16-{tier}-{seed}-{common.repo_key()}-{machinery_key()}")
    if os.path.exists(os.path.join(d, "meta.json")):
        return suites.SuiteResult(d)
    t0 = time.time()
    suites.ensure_driver()
    ok, bad = corpus.validate(G.c16_grammars(tier, seed))
    os.makedirs(CACHE, exist_ok=True)
    sexp = d + ".sexp"
    open(sexp, "w").write("\n".join(g["sexp"] for g in ok) + "\n")
    t1 = time.time()
    mlist = G.model_list(sexp, ok)

    def variants_of(g):
        # `#[box_only_if_needed]` derivations: every grammar in the thorough tier; in the quick tier the systematic and
        # handwritten grammars and every fourth seeded one
        tail = g["gid"].rsplit("_", 1)[-1]
        if tier != "quick" or g["gid"][:2] in ("h_", "s_") or not tail.isdigit() or int(tail) % 4 == 0:
            return G.VARIANTS
        return ("opt", "raw")
    tlist = {}
    for vs in (("opt", "raw"), G.VARIANTS):
        sel = [g for g in ok if tuple(variants_of(g)) == vs]
        if sel:
            tlist.update(G.tool_list(sel, vs))
    t2 = time.time()
    # grammars the generator itself rejects in one variant are left out of the workspace (and reported)
    skip = {k for k, v in tlist.items() if isinstance(v, str)}
    ws = os.path.join(BUILD, f"ws_c16_{tier}")
    prefix = G.PREFIX + tier[0]          # c16gq0.. / c16gt0..: the tiers share one target directory
    where = G.emit_workspace(ok, mlist, ws, suites.NBINS, skip, prefix, variants_of)
    rc, err = corpus.build_workspace(ws, target=G.TARGET)
    if rc != 0:
        raise RuntimeError("C16 workspace does not build (an accessor the model lists is not emitted, or the emitted code does not type-check):\n" + err[-4000:])
    t3 = time.time()
    rnd = random.Random(seed)
    maxlen = 4 if tier == "quick" else 5
    cases = []
    for g in ok:
        ins = corpus.inputs_for(g, rnd, maxlen, 8 if tier == "quick" else 30)
        for v in variants_of(g):
            if (g["gid"], v) in skip:
                continue
            with_getters = {e[0] for e in mlist.get((g["gid"], G.base(v)), [])} | {e[0] for e in tlist.get((g["gid"], v), [])}
            for (rule, kind) in g["rules"]:
                if rule in with_getters:
                    for s in ins:
                        cases.append((g["gid"], rule, v, "str", 0, 0, s))
    impl = suites.run_bins(prefix, where, cases, target=G.TARGET)
    t4 = time.time()
    model = run_model(sexp, [f"getters run {c[0]} {G.base(c[2])} {c[1]} {corpus.hexs(c[6])}" for c in cases])
    t5 = time.time()
    meta = {"suite": "c16", "tier": tier, "seed": seed, "wall_s": time.time() - t0,
            "timing": {"validate": t1 - t0, "listings": t2 - t1, "build": t3 - t2, "impl": t4 - t3, "model": t5 - t4},
            "grammars": {g["gid"]: {"text": g["text"], "rules": g["rules"], "uses_stack": g["uses_stack"], "sexp": g["sexp"]} for g in ok},
            "rejected": [{"gid": g["gid"], "why": g["reject"][:200]} for g in bad],
            "model_list": {f"{k[0]} {k[1]}": v for k, v in mlist.items()},
            "tool_list": {f"{k[0]} {k[1]}": v for k, v in tlist.items()}}
    suites._store(d, meta, cases, impl, model)
    return suites.SuiteResult(d)


# ---------------------------------------------------------------------------------------------
# the check

def parse_get(txt):
    """'a:[..],[..]|b:' -> {name: [token-list strings]} (token lists contain no ',' and no '|')."""
    out = {}
    if txt is None:
        return out
    for part in txt.split("|"):
        if ":" in part:
            x, rest = part.split(":", 1)
            out[x] = [r for r in rest.split(",") if r] if rest else []
    return out


HEAD = re.compile(r"^\[\((\S+) (\d+) (\d+)")


def span_of(ref, x):
    m = HEAD.match(ref)
    return (int(m.group(2)), int(m.group(3))) if m and m.group(1) == x else None


def case_dict(c):
    return {"grammar": c[0], "rule": c[1], "variant": c[2], "input": c[6]}


def fws(ginfo):
    """F-WS root cause (see props.fws_grammar): a WHITESPACE / COMMENT rule that is not declared @/$ and whose body
    contains a sequence, a repetition or a reference to a rule OF THE GRAMMAR (pest forces such bodies atomic,
    pest-typed does not).  References to built-ins (Unicode properties, NEWLINE, …) are harmless."""
    sx = corpus.parse_sexp(ginfo["sexp"])
    defined = {r[1] for r in sx[2:]}
    for r in sx[2:]:
        if r[1] in ("WHITESPACE", "COMMENT") and r[2] not in ("atomic", "compound"):
            def risky(e):
                if isinstance(e, list):
                    if e[0] in ("seq",) + REPS:
                        return True
                    if e[0] == "ident" and e[1] in defined:
                        return True
                    return any(risky(c) for c in e[1:])
                return False
            if risky(r[3]):
                return True
    return False


def check_C16(ctx):
    maxlen = 4 if ctx.tier == "quick" else 5
    ctx.rule_text = ("corpus = systematic grammars (all but the kind-nesting family) + 5 handwritten getter grammars (repeated mentions in "
                     "sequences / choice branches / under ? * + / nested, & and !, PUSH, silent rules in between, recursion, counted repetitions, "
                     "implicit skipping, built-ins) + seeded random grammars, each derived with #[emit_rule_reference] from the optimized AST and "
                     f"with pest_optimizer = false; every rule that has accessors x every string of length <= {maxlen} over the grammar's alphabet (+ random "
                     "longer ones); an evaluation = one accessor call on one accepted input; non-trivial when the accessor returned at least one reference; "
                     "distinct by (grammar, variant, rule, accessor, input)")
    evaluate(ctx, suite_getters(ctx.tier, ctx.seed))


def evaluate(ctx, res):
    """Ties and oracles on a finished suite run (separate so that a run can be re-judged, e.g. against a mutated tree)."""
    meta = res.meta
    # ---- T-gen: the getter trees of the model vs the STRUCTURE of the functions the generator emits
    n_fn, n_bad = 0, 0
    firsts = []
    nb_cache = {}
    for key, tl in meta["tool_list"].items():
        gid, variant = key.split(" ")
        ml = [tuple(e) for e in meta["model_list"].get(f"{gid} {G.base(variant)}", [])]
        if isinstance(tl, str):
            ctx.tie_broken("T-gen", {"grammar": key, "note": "the generator rejects a grammar pest_meta accepts", "detail": tl[:300]})
            continue
        tl = [tuple(e) for e in tl]
        n_fn += max(len(tl), len(ml))
        got = [(r, x, corpus.parse_sexp(ty) if ty.startswith("(") else ty, path if not path.startswith("(") else corpus.parse_sexp(path))
               for (r, x, ty, boxed, path) in tl]
        want = [(r, x, corpus.parse_sexp(ty) if ty.startswith("(") else ty, norm_path(path)) for (r, x, ty, path) in ml]
        if got != want:
            bad = [(a, b) for a, b in zip(got + [None] * len(want), want + [None] * len(got)) if a != b and (a or b)]
            n_bad += len(bad)
            if len(firsts) < 5:
                firsts.append({"grammar": key, "generator": bad[0][0], "model": bad[0][1]})
        # `let res = &*self.content` (boxed content) / `&self.content`: every rule is boxed unless `box_only_if_needed`
        if variant.endswith("box"):
            if key not in nb_cache:
                nb_cache[key] = not_boxed(res.grammars[gid]["sexp"], variant)
        for (r, x, ty, boxed, path) in tl:
            exp_boxed = "0" if variant.endswith("box") and r in nb_cache[key] else "1"
            if boxed != exp_boxed:
                n_bad += 1
                if len(firsts) < 5:
                    firsts.append({"grammar": key, "rule": r, "getter": x, "content_is_dereferenced": boxed, "expected": exp_boxed})
    ctx.ties["T-gen:accessor-structure"] = {"cases": n_fn, "agree": n_fn - n_bad,
                                            "observables": ["rule", "name", "return type (Option/Vec/tuple shape, rule names)",
                                                            "path (field / method hops, indices, flatten flags, tuple shape)", "content boxed"]}
    if n_bad:
        ctx.tie_broken("T-gen:accessor-structure", {"disagreements": n_bad, "first": firsts})
    # ---- T-run: flattened results, implementation vs model
    ctx.tie("T-run:getters", res, ["v", "end", "tok", "get", "st"])
    # ---- oracles
    pegs = {}
    hist = {"accepted": 0, "rejected": 0, "accessor_calls": 0, "spec_checked": 0, "spec_span_checked": 0, "spec_undecided": 0,
            "tokens_checked": 0, "model_direct_checked": 0, "refs_returned": 0, "slot_checked": 0, "slots_compared": 0, "wrapper_checked": 0}
    distinct = set()
    ment_cache = {}
    site_cache = {}
    # declared return types as the generator emits them (read structurally by getters_tool), parsed
    types = {}
    for key, tl in meta["tool_list"].items():
        if isinstance(tl, str):
            continue
        gid, variant = key.split(" ")
        for (r, x, ty, boxed, path) in tl:
            try:
                types[(gid, variant, r, x)] = parse_type(ty)
            except (AssertionError, IndexError, TypeError) as ex:
                ctx.tie_broken("T-gen:return-type-syntax", {"grammar": key, "rule": r, "getter": x, "type": ty[:300]})
    for c, io, mo in res.rows():
        gid, rule, variant, s = c[0], c[1], c[2], c[6]
        if io.get("v") != "ok":
            hist["rejected"] += 1
            if io.get("v") not in ("fail",):
                ctx.violation(f"accessor run did not return ({io.get('v')})", c)
            continue
        hist["accepted"] += 1
        ginfo = res.grammars[gid]
        kinds = dict(ginfo["rules"])
        got = parse_get(io.get("get"))
        shown = {}
        for part in (io.get("st") or "").split("|"):
            if ":" in part:
                sx_, rest_ = part.split(":", 1)
                shown[sx_] = rest_
        key = (gid, variant)
        if key not in pegs:
            pegs[key] = Peg(ginfo["sexp"], variant)
        peg = pegs[key]
        # the model's own `directRefs` on the model value (sanity of the theorem on concrete data)
        mget, mdir = parse_get(mo.get("get")), parse_get(mo.get("dir"))
        for x, refs in mget.items():
            if mo.get("dir") is not None and x in mdir and mdir[x] != ["-"]:
                hist["model_direct_checked"] += 1
                if refs != mdir[x]:
                    ctx.tie_broken("model:flatten-vs-directRefs", {"case": case_dict(c), "getter": x, "flatten": refs, "directRefs": mdir[x]})
        # SPEC oracle
        spec = None
        if not fws(ginfo):
            try:
                spec = peg.direct_refs(rule, s)
            except (Diverge, Unsupported, RecursionError):
                spec = None
        if spec is None or str(spec[0]) != io.get("end"):
            hist["spec_undecided"] += 1
            spec = None
        # TOKENS oracle preconditions
        mk = (gid, variant, rule)
        if mk not in ment_cache:
            ment_cache[mk] = mentions(peg.rules[rule][1])
        ment = ment_cache[mk]
        silent_mentioned = any(kinds.get(n) == "silent" for n, _ in ment)
        toks = None
        if kinds.get(rule) in ("normal", "nonatomic", "silent") and not silent_mentioned:
            from .props import parse_tokens
            top = parse_tokens(io.get("tok", "[]"))
            toks = top if kinds.get(rule) == "silent" else (top[0][3] if top else [])
        for x, refs in got.items():
            hist["accessor_calls"] += 1
            hist["refs_returned"] += len(refs)
            ctx.evaluations += 1
            if refs:
                k = (gid, variant, rule, x, s)
                if k not in distinct:
                    distinct.add(k)
                    ctx.nontrivial += 1
                if len(ctx.samples) < 5 and len(refs) > 1:
                    ctx.samples.append({"case": case_dict(c), "impl": {"getter": x, "flattened": refs, "tok": io.get("tok")}})
            xkind = kinds.get(x)
            spanned = xkind in ("normal", "atomic", "compound", "nonatomic") or (xkind is None and x == "EOI")
            spans = [span_of(r, x) for r in refs] if spanned else None
            if spanned and any(sp is None for sp in spans):
                ctx.violation("accessor returned a node that is not a node of the named rule", c, getter=x, returned=refs)
                continue
            if spec is not None:
                exp = [(a, b) for (n, a, b, _site) in spec[1] if n == x]
                hist["spec_checked"] += 1
                if spanned:
                    hist["spec_span_checked"] += 1
                    if spans != exp:
                        ctx.violation("accessor result differs from the rule references the rule's expression matched directly", c,
                                      getter=x, impl_spans=spans, expected_spans=exp, oracle="SPEC")
                elif len(refs) != len(exp):
                    ctx.violation("accessor returns a different NUMBER of references than the rule's expression matched directly", c,
                                  getter=x, impl=refs, expected_count=len(exp), oracle="SPEC")
            # SLOTS oracle: slot k of the declared return type belongs to the k-th mention of x
            ty = types.get((gid, variant, rule, x))
            stx = shown.get(x)
            if ty is not None and stx is not None:
                try:
                    slots = slots_of(ty, parse_struct(stx))
                except (AssertionError, IndexError, ValueError) as ex:
                    ctx.violation("structured accessor result does not inhabit the declared return type", c, getter=x,
                                  structured=stx, detail=str(ex)[:200])
                    slots = None
                sk = (gid, variant, rule, x)
                if sk not in site_cache:
                    site_cache[sk] = mention_sites(peg.rules[rule][1], x)
                sites = site_cache[sk]
                want_ch = [ch for _, ch in sites]
                got_ch = type_leaves(ty)
                if want_ch != got_ch:
                    # e.g. `Option<Option<&x>>` (`S(N)`) where the mention sits under ONE optional layer: shown on this input
                    ctx.violation("accessor result is wrapped differently than the positions of the mentions require (Option / Vec / tuple per mention)",
                                  c, getter=x, structured=stx, chains_of_result_type=got_ch, chains_expected=want_ch, oracle="SLOTS")
                if slots is not None and len(slots) != len(sites):
                    ctx.violation("number of reference slots in the return type differs from the number of mentions outside negative predicates",
                                  c, getter=x, slots=len(slots), mentions=len(sites))
                elif slots is not None and spec is not None:
                    hist["slot_checked"] += 1
                    by_site = {}
                    for (n, a, b, site) in spec[1]:
                        if n == x:
                            by_site.setdefault(site, []).append((a, b))
                    for k, ((site, _chain), got_k) in enumerate(zip(sites, slots)):
                        hist["slots_compared"] += 1
                        exp_k = by_site.get(site, [])
                        got_sp = [span_of(r, x) for r in got_k] if spanned else None
                        if (got_sp != exp_k) if spanned else (len(got_k) != len(exp_k)):
                            ctx.violation(f"slot {k} of the accessor result does not hold the matches of mention number {k} (mention order)", c,
                                          getter=x, structured=stx, slot=k, impl_slot=got_sp if spanned else got_k,
                                          expected_matches_of_mention=exp_k, all_slots=[[span_of(r, x) for r in sl] for sl in slots] if spanned else None,
                                          oracle="SLOTS")
                            break
            if toks is not None and spanned and xkind is not None and x not in ("WHITESPACE", "COMMENT") \
                    and not any(n == x and up for n, up in ment):
                exp = [(t[1], t[2]) for t in toks if t[0] == x]
                hist["tokens_checked"] += 1
                if spans != exp:
                    ctx.violation("accessor result differs from the x-labelled children of the rule's own token", c,
                                  getter=x, impl_spans=spans, expected_spans=exp, oracle="TOKENS")
    # a getter for a name only mentioned under `!` must not exist (implementation listing, model-free)
    for key, tl in meta["tool_list"].items():
        if isinstance(tl, str):
            continue
        gid, variant = key.split(" ")
        peg = pegs.get((gid, variant)) or Peg(res.grammars[gid]["sexp"], variant)
        kinds = dict(res.grammars[gid]["rules"])
        by_rule = {}
        for (r, x, ty, boxed, path) in tl:
            by_rule.setdefault(r, []).append(x)
        # wrapper per mention: the chain of Option / Vec / tuple around slot k of the DECLARED type must be the one the
        # k-th mention's position in the expression calls for
        for (r, x, ty, boxed, path) in tl:
            pty = types.get((gid, variant, r, x))
            if pty is None:
                continue
            hist["wrapper_checked"] += 1
            want_ch = [ch for _, ch in mention_sites(peg.rules[r][1], x)]
            got_ch = type_leaves(pty)
            if want_ch != got_ch:
                ctx.violations.append({"what": "return type of an accessor does not wrap the mentions as their positions require (Option / Vec / tuple per mention, in mention order)",
                                       "case": {"grammar": gid, "variant": variant, "rule": r, "getter": x}, "declared": ty[:300],
                                       "chains_declared": got_ch, "chains_expected": want_ch})
        for r, (kind, expr) in peg.rules.items():
            want = sorted({n for n, _ in mentions(expr)}) if kind != "atomic" else []
            if sorted(by_rule.get(r, [])) != want:
                ctx.violations.append({"what": "set of emitted accessors differs from the names mentioned outside negative predicates",
                                       "case": {"grammar": gid, "variant": variant, "rule": r}, "emitted": by_rule.get(r, []), "expected": want})
    hist["grammars"] = len(res.grammars)
    hist["timing_s"] = {k: round(v, 1) for k, v in meta.get("timing", {}).items()}
    ctx.coverage.setdefault("distribution", {}).update(hist)
    ctx.coverage["rejected_grammars"] = len(meta.get("rejected", []))
    ctx.assumptions.append("built-in names (ANY, PEEK, ASCII_DIGIT, …) also get accessors; they are not rule structs and carry no rule id in the model, "
                           "so the theorems' `directRefs` does not speak about them: they are covered by T-gen, T-run (count of references) and the SPEC oracle (count)")
    ctx.assumptions.append("identity ('the very node stored in r's content') is structural in the model (sub-value at the path); on the implementation the "
                           "accessors return `&'s T` borrowed from `&'s self`, so no copy can be returned by construction of the types; the harness compares "
                           "the token list of every returned node (span, rule, whole subtree)")
