#!/usr/bin/env python3
"""Corpus machinery of the correspondence harness (T-run): grammar sources, validation through
pest_meta (`dump_ast`), emission of the cargo workspace that derives a pest-typed parser (current
/repo generator + runtime) and a pest_derive parser for every grammar, input generation, and the
case protocol.  All randomness derives from one seed."""
import json, os, random, re, subprocess, sys, hashlib, itertools

HERE = os.path.dirname(os.path.abspath(__file__))
VERIF = os.path.dirname(HERE)
BUILD = os.path.join(VERIF, "build")
TARGET = os.path.join(BUILD, "target")
ENV = dict(os.environ, CARGO_NET_OFFLINE="true", CARGO_TARGET_DIR=TARGET, CARGO_INCREMENTAL="0")
PROFILE = "[profile.dev]\ndebug = 0\nincremental = false\n[profile.release]\ndebug = 0\nincremental = false\n"


def hexs(s):
    b = s.encode("utf-8")
    return b.hex() if b else "-"


def unhex(h):
    return "" if h == "-" else bytes.fromhex(h).decode("utf-8")


# ---------------------------------------------------------------------------------------------
# S-expressions (output of dump_ast)

def parse_sexp(s):
    toks = re.findall(r"\(|\)|[^\s()]+", s)
    pos = 0

    def rd():
        nonlocal pos
        t = toks[pos]
        pos += 1
        if t == "(":
            out = []
            while toks[pos] != ")":
                out.append(rd())
            pos += 1
            return out
        return t
    return rd()


STACK_NAMES = {"PEEK", "POP", "DROP", "PEEK_ALL", "POP_ALL"}


def analyse(sx):
    """Static well-foundedness (DESIGN C11): returns None if fine, else a reason.  Stack-reading
    terminals count as nullable (pest's validator does not know that)."""
    rules = {r[1]: r for r in sx[2:]}
    nullable = {n: False for n in rules}

    def nul(e):
        k = e[0]
        if k == "str" or k == "insens":
            return e[1] == "-"
        if k == "range":
            return False
        if k == "ident":
            n = e[1]
            if n in rules:
                return nullable[n]
            return n in STACK_NAMES or n in ("SOI", "EOI")
        if k == "peekslice":
            return True
        if k in ("pos", "neg", "opt", "rep", "skip"):
            return True
        if k in ("repmax",):
            return True
        if k in ("reponce", "push", "restore"):
            return nul(e[1])
        if k in ("repexact", "repmin"):
            return int(e[2]) == 0 or nul(e[1])
        if k == "repminmax":
            return int(e[2]) == 0 or nul(e[1])
        if k == "seq":
            return nul(e[1]) and nul(e[2])
        if k == "choice":
            return nul(e[1]) or nul(e[2])
        return True
    changed = True
    while changed:
        changed = False
        for n, r in rules.items():
            for body in (r[3], r[4]):
                if not nullable[n] and nul(body):
                    nullable[n] = True
                    changed = True

    def reps(e, out):
        if isinstance(e, list):
            if e[0] in ("rep", "reponce", "repexact", "repmin", "repmax", "repminmax"):
                out.append(e[1])
            for c in e[1:]:
                reps(c, out)
    for n, r in rules.items():
        for body in (r[3], r[4]):
            out = []
            reps(body, out)
            for b in out:
                if nul(b):
                    return f"rule {n}: repetition body may match empty"
    for n in ("WHITESPACE", "COMMENT"):
        if n in rules and nullable[n]:
            return f"{n} may match empty"

    def heads(e, out):
        k = e[0]
        if k == "ident":
            if e[1] in rules:
                out.add(e[1])
        elif k in ("pos", "neg", "opt", "rep", "reponce", "push", "restore", "repexact", "repmin", "repmax", "repminmax"):
            heads(e[1], out)
        elif k == "choice":
            heads(e[1], out)
            heads(e[2], out)
        elif k == "seq":
            heads(e[1], out)
            if nul(e[1]):
                # the implicit skip sits between the elements: skip rules are heads too
                for s in ("WHITESPACE", "COMMENT"):
                    if s in rules:
                        out.add(s)
                heads(e[2], out)
    graph = {}
    for n, r in rules.items():
        hs = set()
        heads(r[3], hs)
        heads(r[4], hs)
        graph[n] = hs
    # cycle detection
    color = {}

    def dfs(n):
        color[n] = 1
        for m in graph[n]:
            if color.get(m) == 1:
                return True
            if m not in color and dfs(m):
                return True
        color[n] = 2
        return False
    for n in rules:
        if n not in color and dfs(n):
            return "left recursion"
    return None


def alphabet_of(sx):
    cs = []

    def walk(e):
        if isinstance(e, list):
            if e[0] in ("str", "insens"):
                for c in unhex(e[1]):
                    cs.append(c)
            elif e[0] == "range":
                cs.append(chr(int(e[1])))
                cs.append(chr(int(e[2])))
            elif e[0] == "skip":
                for h in e[1:]:
                    for c in unhex(h):
                        cs.append(c)
            else:
                for c in e[1:]:
                    walk(c)
    walk(sx)
    out = []
    for c in cs:
        if c not in out:
            out.append(c)
    return out


# ---------------------------------------------------------------------------------------------
# grammar sources

KINDS = ["", "_", "@", "$", "!"]


def systematic_grammars():
    """Seed-independent part of the corpus: one grammar per feature family."""
    gs = []

    def add(name, text):
        gs.append({"gid": name, "text": text})
    add("s_basic", r'''
r0 = { "a" ~ "b" }
r1 = { "a" | "ab" | "b" }
r2 = { "a"* ~ "b"? }
r3 = { ("a" ~ "b")+ ~ "c" }
r4 = { !"a" ~ ANY ~ &"b" }
r5 = { ^"aB" ~ 'a'..'c' }
''')
    add("s_skip_ws", r'''
r0 = { "a" ~ "b" }
r1 = { "a"* }
r2 = @{ "a" ~ "b"* }
r3 = ${ "a" ~ r0 }
r4 = !{ "a" ~ r2 ~ "b"+ }
r5 = _{ "a" ~ r1 }
r6 = { SOI ~ r0 ~ EOI }
WHITESPACE = _{ " " }
''')
    add("s_skip_both", r'''
r0 = { "a" ~ "b"? ~ "a" }
r1 = { ("a" | "b")+ }
r2 = @{ r1 ~ "c" }
r3 = ${ r1 ~ (" " ~ r1)* }
r4 = { r2 ~ r3 }
WHITESPACE = @{ " " }
COMMENT = @{ "/" ~ (!"/" ~ ANY)* ~ "/" }
''')
    add("s_skip_tokens", r'''
r0 = { "a" ~ "b" }
r1 = { r0* }
r2 = !{ "a"+ }
WHITESPACE = { " " }
COMMENT = ${ "#" }
''')
    add("s_stack", r'''
r0 = { PUSH("a" | "b") ~ PEEK ~ POP }
r1 = { PUSH("a") ~ PUSH("b") ~ PEEK_ALL }
r2 = { PUSH("a") ~ PUSH("b")? ~ POP_ALL }
r3 = { PUSH("a"+) ~ (DROP | "x") ~ PEEK? }
r4 = { PUSH("a") ~ PUSH("b") ~ PUSH("c") ~ PEEK[0..2] ~ PEEK[-1..] ~ PEEK[1..-1] }
r5 = { PEEK | POP | DROP | "z" }
r6 = { PUSH("a") ~ (POP ~ "x" | "a") ~ PEEK }
r7 = { PUSH("a") ~ &(POP ~ "b") ~ !(DROP ~ "c") ~ PEEK ~ "b" }
r8 = { PEEK[3..] | PEEK[-1..] | PEEK[..-4] | "q" }
r9 = { PUSH("a") ~ PUSH("b") ~ DROP* ~ (PEEK | "x") }
r10 = @{ PUSH("a") ~ PUSH("") ~ PUSH("b") ~ POP+ ~ (PEEK_ALL ~ "b")? }
r11 = { PUSH("a") ~ !(&PUSH("b") ~ POP) ~ "b" ~ POP }
r12 = { PUSH("a") ~ &(PUSH("b") ~ "b") ~ "b" ~ POP }
r13 = { PUSH("a") ~ PUSH("b") ~ (DROP{1,3} ~ "a")? ~ PEEK_ALL }
r14 = { PUSH("a") ~ (DROP ~ PUSH("b") ~ "!" | "b") ~ POP }
r15 = { PUSH("a") ~ (POP ~ PUSH("b") ~ "!")? ~ PEEK }
r16 = { PUSH("a") ~ PUSH("b") ~ (DROP ~ DROP ~ PUSH("ab") ~ "!" | "ab") ~ POP ~ POP }
r17 = { PUSH("a") ~ ("b" ~ DROP ~ PUSH("b") ~ "!")* ~ "b"? ~ PEEK }
r18 = { PUSH("a") ~ !(DROP ~ PUSH("b") ~ "a") ~ &(POP ~ PUSH("b")) ~ PEEK }
r19 = @{ PUSH("a") ~ PUSH("b") ~ (POP ~ POP ~ PUSH("b") ~ PUSH("a") ~ "!")? ~ PEEK_ALL }
''')
    add("s_builtin", r'''
r0 = { ASCII_DIGIT+ ~ ASCII_ALPHA* }
r1 = { ASCII_HEX_DIGIT ~ ASCII_OCT_DIGIT ~ ASCII_BIN_DIGIT ~ ASCII_NONZERO_DIGIT }
r2 = { ASCII_ALPHA_LOWER ~ ASCII_ALPHA_UPPER ~ ASCII_ALPHANUMERIC ~ ASCII }
r3 = { NEWLINE+ ~ ANY }
r4 = { SOI ~ "a"* ~ EOI }
r5 = { (!NEWLINE ~ ANY)* ~ NEWLINE }
''')
    add("s_counted", r'''
r0 = { "a"{2} }
r1 = { "a"{1,} ~ "b" }
r2 = { "a"{,2} ~ "a" }
r3 = { ("a" | "b"){1,3} }
r4 = { "a"{0,1} ~ "b"{2,2} }
WHITESPACE = _{ " " }
''')
    add("s_rec", r'''
r0 = { "(" ~ r0* ~ ")" }
r1 = { "a" ~ r1 | "b" }
r2 = { r3 ~ ("+" ~ r3)* }
r3 = { "n" | "(" ~ r2 ~ ")" }
WHITESPACE = _{ " " }
''')
    add("s_unicode", "r0 = { \"é\" ~ \"a\" }\nr1 = { ^\"éa\" }\nr2 = { 'à'..'ÿ'+ }\nr3 = { (!\"中\" ~ ANY)* ~ \"中\" }\nr4 = { \"\U0001F600\"? ~ ANY }\n")
    add("s_skipuntil", r'''
r0 = @{ (!"ab" ~ ANY)* }
r1 = @{ (!("ab" | "c") ~ ANY)* ~ "ab" }
r2 = { (!"b" ~ ANY)* ~ "b" }
''')
    # skip rules of kind normal / silent with a sequence or repetition in the body, only one of the two defined:
    # implicit skipping still matches them atomically (pest does too); they are outside C01's hypothesis
    # (SkipRulesAtomicLike) only because an EXPLICIT reference would differ (F-WS), so the oracle judges them
    add("s_skip_seqbody_c", r'''
r0 = { "a" ~ "b" }
r1 = { "a"+ ~ r0? }
r2 = !{ "a" ~ r0* }
COMMENT = _{ "/*" ~ (!"*/" ~ ANY)* ~ "*/" }
''')
    add("s_skip_seqbody_w", r'''
r0 = { "a" ~ "b" }
r1 = { "a"+ ~ r0? }
cont = { "\\" ~ "\n" }
WHITESPACE = { " " | cont }
''')
    # known finding F-WS: skip rules that are not declared @/$ and contain a sequence / rule reference
    add("s_fws", r'''
r = { "x" ~ WHITESPACE }
m = { "y" ~ "z" }
wsx = { " " }
WHITESPACE = { "a" ~ "b" | wsx }
''')
    # kind nesting family (C07): outer kind x middle kind x inner kind, four skip configurations
    skips = {
        "n": "",
        "w": 'WHITESPACE = _{ " " }\n',
        "c": 'COMMENT = _{ "#" }\n',
        "wc": 'WHITESPACE = _{ " " }\nCOMMENT = _{ "#" }\n',
    }
    for sname, stext in skips.items():
        lines = []
        for ko, km, ki in itertools.product(range(5), repeat=3):
            base = f"k{ko}{km}{ki}"
            lines.append(f'{base}i = {KINDS[ki]}{{ "a" ~ "b"* }}')
            lines.append(f'{base}m = {KINDS[km]}{{ {base}i ~ "c" }}')
            lines.append(f'{base}o = {KINDS[ko]}{{ "x" ~ {base}m+ }}')
        add(f"s_kinds_{sname}", "\n".join(lines) + "\n" + stext)
        # targeted inputs: the family's own sentences with skippable characters inserted at every gap
        extra = set()
        for base in ("ab", "abb", "abc", "abbc", "xabc", "xabbc", "xabcabc", "xabcabbc"):
            gaps = range(len(base) + 1)
            for k in (0, 1, 2):
                for pos in itertools.combinations(gaps, k):
                    for ch in ((" ",) if sname == "w" else ("#",) if sname == "c" else (" ", "#") if sname == "wc" else (" ",)):
                        t = "".join((ch if j in pos else "") + (base[j] if j < len(base) else "") for j in range(len(base) + 1))
                        extra.add(t)
        gs[-1]["inputs"] = sorted(extra)
    # Unicode property built-ins (C01 quantifies over them): sequences / repetitions / negations / choices /
    # atomic and compound rules / the implicit skip / the stack over ~35 property rules.  The model answers
    # `charBy name` from pest's own tables restricted to UNI_ALPHABET (tools/uni_table → VERIF_UNI_TABLE), so
    # every input of this grammar is drawn from that alphabet (the literals below and every character
    # `inputs_for` adds to random inputs are in it too).
    add("s_uniprops", r'''
u0 = { ALPHABETIC+ ~ DECIMAL_NUMBER* }
u1 = { UPPERCASE ~ LOWERCASE* }
u2 = { (!WHITE_SPACE ~ ANY)+ }
u3 = { HAN | HIRAGANA | KATAKANA | HANGUL }
u4 = { (LETTER ~ NONSPACING_MARK*)+ ~ EOI }
u5 = { EMOJI | MATH | CURRENCY_SYMBOL | PUNCTUATION }
u6 = @{ XID_START ~ XID_CONTINUE* }
u7 = { !(CYRILLIC | GREEK) ~ ALPHABETIC ~ "1"? }
u8 = { (LATIN ~ "é"?){1,3} }
u9 = ${ (UPPERCASE_LETTER | TITLECASE_LETTER) ~ (LOWERCASE_LETTER | "a")* ~ &(SEPARATOR | EOI) }
u10 = { (NUMBER | "É" | "中")* ~ !ASCII_DIGIT ~ ANY? }
u11 = { PUSH(ALPHABETIC+) ~ MATH ~ POP }
u12 = { (JOIN_CONTROL | FORMAT | CONTROL | UNASSIGNED | PRIVATE_USE)+ }
u13 = { "\u{301}" ~ GRAPHEME_EXTEND | CASED ~ CASE_IGNORABLE* }
u14 = !{ u6 ~ u3* }
WHITESPACE = _{ SPACE_SEPARATOR }
''')
    urnd = random.Random(7)
    sub = ["a", "A", "1", " ", "é", "É", "ß", "Ω", "ж", "中", "あ", "\u0301", "\u00a0", "\u200d", "\U0001F600", "+", "ǅ", "٣"]
    uin = list(UNI_ALPHABET) + [x + y for x in sub for y in sub]
    uin += ["Éa b", "Ωω", "中あア가", "a\u0301b", "a\u0301\u0301", "x\u00a0z", "a\u3000b1", "ǅa", "ǅa\u2028", "Aa\u2029b", "€", "٣1", "a\u200db",
            "\u200d\u200e\x00", "\u0378\ue000\U0010ffff", "a+a", "ab+ab", "ab+a", "é+é", "中1", "ж1", "ω1", "z1", "ÉÉ中1x", "²Ⅰ٣", "\u0301\u20dd",
            "\u0301\u0903", "A.^ʰ", "aé", "aéaéaéaé", "가ア", "a 1", "a\u00a01", "Aa\u00a0", "क\u0903", "ก", "א", "ا", "ª²", "««", "×", "‿", "(_)"]
    for _ in range(160):
        uin.append("".join(urnd.choice(UNI_ALPHABET) for _ in range(urnd.randint(2, 6))))
    assert all(c in UNI_ALPHABET for x in uin for c in x), "s_uniprops: input outside UNI_ALPHABET"
    gs[-1]["inputs"] = sorted(set(uin))
    # whole strings of which every Position / Span cut is run (suites.run_cases_for, C08): the stack rules get past
    # their second element inside a shifted sub-input, the terminator of a skip_until lies beyond / across the cut
    by = {g["gid"]: g for g in gs}
    by["s_stack"]["subinputs"] = ["zabcabcbz", "aabab!bax", "ababbaabb"]
    by["s_skipuntil"]["subinputs"] = ["xxabcabxab", "cbaabxxbab"]
    return gs


def insert_variants(bases, chars, upto=2):
    """The sentences `bases` with up to `upto` skippable characters inserted at every gap (all insertions of one sentence
    use the same character)."""
    out = set()
    for base in bases:
        gaps = range(len(base) + 1)
        for k in range(upto + 1):
            for pos in itertools.combinations(gaps, k):
                for ch in chars:
                    out.add("".join((ch if j in pos else "") + (base[j] if j < len(base) else "") for j in range(len(base) + 1)))
    return sorted(out)


def case_variants(lit):
    """Spellings of a case-insensitive literal: exact, Unicode upper / lower / swapped / title case, ASCII-only case
    changes, and for every 2-byte character (lead byte L in 0xC2..0xDF, second byte S) the 3- / 4-byte characters whose
    lead byte is L|0x20 and whose second byte is S (a byte-wise comparison that folds bit 5 of every byte confuses them)."""
    out = [lit, lit.upper(), lit.lower(), lit.swapcase(), lit.title(), lit.casefold(),
           "".join(c.upper() if c.isascii() else c for c in lit), "".join(c.lower() if c.isascii() else c for c in lit),
           "".join(c.swapcase() if c.isascii() else c for c in lit),
           "".join(c if c.isascii() else c.swapcase() for c in lit)]
    for k, c in enumerate(lit):
        bs = c.encode("utf-8")
        if len(bs) == 2:
            for tail in (b"\x80", b"\x80\x80", b"\xbf", b"\xbf\xbf"):
                try:
                    near = (bytes([bs[0] | 0x20, bs[1]]) + tail).decode("utf-8")
                except UnicodeDecodeError:
                    continue
                out.append(lit[:k] + near + lit[k + 1:])
                out.append(lit[:k] + near)
        if len(bs) >= 3:
            # the other direction: a shorter relative (lead byte without bit 5, same second byte) where it is a character
            try:
                out.append(lit[:k] + bytes([bs[0] & 0xDF, bs[1]]).decode("utf-8") + lit[k + 1:])
            except UnicodeDecodeError:
                pass
    res = []
    for x in out:
        for y in (x, x + "a", "a" + x):
            if y not in res:
                res.append(y)
    return res


# boundaries of the ranges behind the ASCII built-ins (one below / first / last / one above), line ends, non-ASCII neighbours
ASCII_EDGES = ["\x00", "\t", "\n", "\r", " ", "/", "0", "1", "2", "7", "8", "9", ":", "@", "A", "F", "G", "Z", "[", "`",
               "a", "f", "g", "z", "{", "\x7f", "\u0080", "é", "٣", "Ａ"]


def targeted_grammars():
    """Grammars aimed at classes of breaking changes an independent review found unobservable (only part of the T-run
    suites of checks/suites.py; the other harnesses keep using `systematic_grammars`).  Keys besides gid / text: see
    suites.run_cases_for (`inputs`, `inputs_by_prefix`, `alpha`, `exh`, `subinputs`) and `noopt` (also derived with
    `#[pest_optimizer = false]`, suites.suite_run_noopt)."""
    gs = []

    def add(name, text, **kw):
        gs.append(dict({"gid": name, "text": text, "sub_targeted": False}, **kw))

    # -- C05: the implicit skip (AtomicRepeat<RULE>: exactly ONE of WHITESPACE / COMMENT defined, so no Choice2 restores
    # for it) whose rule touches the stack and fails afterwards; the stack is read after the skip.  Skip rules are @ / $
    # or silent / normal (implicit skipping matches them atomically either way; nothing refers to them explicitly and
    # they are no entry of an oracle case that F-WS could mask: see props.fws_case)
    comment = '"<" ~ PUSH("="+) ~ "<" ~ (!(">" ~ PEEK ~ ">") ~ ANY)* ~ ">" ~ POP ~ ">"'
    skipstack_inputs = ["a<=a", "ab<=ab", "ab<ab", "a<=<x>=>a", "a<=<x>=><a", "ab<==<b>=>>==><ab", "a<=a<=a", "a<a<=a", "a<=a<a", "ab <= ab",
                        "a<=<>=><=a", "a<==<>==><=a", "a<=<=a", "b<=b<=", "b<b<=", "a<=<", "a<=<a", "a<<a", "a<==a", "a<=<>>=>a", "ba<=<=>=>=>ba",
                        "a<=<>=>", "a<=a<=<>=>", "a<=a<=<", "a<=<>=><=<>=>a", "a<=<>=><=<a", "aa<=aa<=aa", "aa<=aa", "<=<x>=>", "<==<>=>>==>", "<=<", "<=<>=>a",
                        "aa<=aaa", "ab<=ba", "aa<=<>=><aa"]
    for suffix, kind in (("c", "_"), ("ca", "@"), ("cc", "$"), ("cn", "")):
        add(f"s_skipstack_{suffix}", "\n".join([
            'main = { PUSH(word) ~ op ~ POP }',
            'word = @{ ("a" | "b")+ }',
            'op = { "<=" | "<" }',
            'lst = { PUSH(word) ~ (op ~ PEEK)* ~ POP }',
            'fin = { PUSH(word) ~ op ~ PEEK_ALL }',
            'cnt = ${ PUSH("a") ~ main ~ POP }',
            'opt = { PUSH(word) ~ (op ~ "!")? ~ op ~ &POP ~ PEEK }',
            'COMMENT = %s{ %s }' % (kind, comment)]) + "\n", inputs=skipstack_inputs, alpha=["a", "<", "=", ">"])
    ws_inputs = ["a-a", "ab-ab", "a -a", "a- a", "a  -a", "a-  a", "a- -a", "a-a-a", "a-a-", "a-", "a--a", "a- - a", "b-b-b-b", "a-b", "a -", "a- ",
                 "a#a", "a##a", "a#a#", "ab#ab", "a#", "a#b", "a##", "a#a#a#a", "a-#a", "a#-a"]
    for suffix, kind in (("", "_"), ("a", "@")):
        add(f"s_skipstack_w{suffix}", "\n".join([
            'main = { PUSH(word) ~ "-" ~ POP }',
            'word = @{ ("a" | "b")+ }',
            'two = { PUSH(word) ~ ("-" ~ PEEK)+ }',
            'neg = { PUSH(word) ~ !("-" ~ "-") ~ "-" ~ PEEK_ALL }',
            'WHITESPACE = %s{ PUSH(" " | "-") ~ " " ~ DROP }' % kind]) + "\n", inputs=ws_inputs, alpha=["a", "-", " ", "b"])
        add(f"s_skipstack_d{suffix}", "\n".join([
            'main = { PUSH(word) ~ "#"? ~ PEEK }',
            'word = @{ ("a" | "b")+ }',
            'two = { PUSH("a") ~ PUSH("b") ~ "#" ~ POP ~ "#"? ~ POP }',
            'rep = { PUSH(word) ~ ("#" ~ PEEK)* }',
            'COMMENT = %s{ "#" ~ DROP ~ "#" }' % kind]) + "\n",
            inputs=ws_inputs + ["ab#b#a", "ab#ba", "abb#b#ab", "ab##b#a", "a#a##a"], alpha=["a", "#", "b"])

    # -- C05 / C19: the per-iteration restore of repetitions: iteration k pushes (or drops), then fails.  With pest's
    # optimizer `e{n,m}` is unrolled into sequences of options; `noopt`: derived once more without it (RepMinMax & co.)
    rep_inputs = ["ab", "aba", "abab", "ababa", "abababa", "abaa", "axbb", "axbxb", "axbxcxd", "axb", "ax", "axbx", "axbxc", "bxaxa", "axaxa", "axa",
                  "qxq", "qxxq", "qq", "qx", "qxx", "axyaxya", "axyaxa", "axaxyaxya", "axyaxyaa", "axyaxaxy", "axaxy", "bxb", "bxab", "axbya", "axbxya",
                  "axbxcc", "axbxcxdd", "axbxb", "bxa", "axb", "axbxba", "axbxcxcb", "axbxab", "axbxcxcba", "axaxyaa", "axyaxyaa",
                  "aaxbb", "aaxb", "aaxbbxb", "aaxbbxbb", "aaxbbxbbxb", "aaxba", "abba", "abb", "abbb", "abbbb", "ab", "aba", "abab",
                  "aabxb", "aabxbcxc", "aabxbcxca", "aabxbca", "aabxbb", "aabxba", "aqaxqa", "aqaxbxba", "aqbxaxaa", "aqbxaa", "aqaxbxbq", "aqbxbxaxaxaa",
                  "aqaxba", "aaxbxb", "aaxbbx"]
    for suffix, ws in (("", ""), ("_w", 'WHITESPACE = _{ " " }\n')):
        add("s_represtore" + suffix, "\n".join([
            'r0 = { (PUSH("a") ~ "b"){1,3} ~ PEEK }',
            'r1 = { (PUSH(ANY) ~ "x"){,2} ~ POP? }',
            'r2 = { (PUSH(ANY) ~ "x"){2} ~ PEEK_ALL }',
            'r3 = { (PUSH("a" | "b") ~ "x"){1,} ~ PEEK }',
            'r4 = { PUSH("q") ~ (DROP ~ "x"){0,2} ~ PEEK }',
            'r5 = @{ (PUSH(ANY) ~ "x"){1,2} ~ PEEK }',
            'r6 = { (PUSH(ANY) ~ "x")* ~ PEEK }',
            'r7 = { (PUSH(ANY) ~ "x")+ ~ POP }',
            'r8 = { ((PUSH("a") ~ "x"){1,2} ~ "y"){1,2} ~ PEEK_ALL }',
            'r9 = { (PUSH(ANY) ~ "x"){2,3} ~ POP ~ POP }',
            'r10 = { PUSH("a") ~ (POP ~ "x" ~ PUSH("b")){,2} ~ PEEK }',
            # replace-top idiom: a matched iteration leaves the DEPTH of the stack unchanged and its content changed, then an
            # iteration fails (the restore point must be the stack after the last matched iteration), then the stack is read
            'r11 = { PUSH("a") ~ (DROP ~ PUSH("b")){0,3} ~ PEEK }',
            'r12 = { PUSH(ANY) ~ (POP ~ PUSH(ANY) ~ "x"){1,3} ~ PEEK_ALL }',
            'r13 = { PUSH("a") ~ PUSH("q") ~ (DROP ~ PUSH("a" | "b") ~ "x"){,4} ~ POP ~ POP }',
            'r14 = @{ PUSH("a") ~ (POP ~ "x" ~ PUSH("b")){1,2} ~ PEEK }']) + "\n" + ws,
            inputs=sorted(set(rep_inputs + ([x.replace("x", " x") for x in rep_inputs] + [x.replace("x", "x ") for x in rep_inputs] if ws else []))),
            alpha=["a", "b", "x", "q"] + ([" "] if ws else ["y"]), noopt=True)

    # -- C01 / C09: case-insensitive literals beyond ASCII (pest folds ASCII letters only, byte lengths must not change)
    lits = ["é", "ÜBER", "Дa", "İx", "ß", "aé", "а", "σΣ", "ǅ", "éÉ"]
    ins = []
    for l in lits:
        for v in case_variants(l):
            if v not in ins:
                ins.append(v)
    ins += ["über", "ÜBER", "Über", "üBER", "i̇x", "İX", "ix", "Ix", "SS", "ss", "ẞ", "дa", "ДA", "дA", "㩀", "a㩀", "\U00030000", "É", "éa", "ÉA",
            "σσ", "ΣΣ", "σς", "ǆ", "Ǆ", "é é", "x é㩀", "É x"]
    add("s_insens_uni", "\n".join([
        'i0 = { ^"é" }', 'i1 = { ^"ÜBER" }', 'i2 = { ^"Дa" }', 'i3 = { ^"İx" }', 'i4 = { ^"ß" }', 'i5 = { ^"aé" ~ ANY }',
        'i6 = @{ ^"а" ~ ANY* }', 'i7 = { (^"é" | "x")+ }', 'i8 = { ^"σΣ" ~ ^"ǅ"? }', 'i9 = ${ !^"éÉ" ~ ANY ~ i0? }', 'WHITESPACE = _{ " " }']) + "\n",
        inputs=sorted(set(ins)), alpha=["é", "É", "a", "A", "x"])

    # -- C01: every ASCII built-in accepts and rejects something at both ends of its ranges; NEWLINE on every line end
    edge_inputs = list(ASCII_EDGES) + [x + y for x in ("\r", "\n", "a", "0") for y in ("\r", "\n", "a", "0")]
    edge_inputs += ["\r\n\r", "a\r\nb", "\n\r\n", "\r\r\n", "a\rb", "ab\n", "0\r\n0", "1\n2\r3\r\n4"]
    valid = {"q1": "f701", "q2": "aZ0~"}
    vary = {"q1": ["/09:@AFG`afg", "/0789", "/012", "019:/"], "q2": ["`az{AZ", "@AZ[az", "/09:@AZ[`az{", "\x00~\x7f\u0080é"]}
    for r, base in valid.items():
        for k, chars in enumerate(vary[r]):
            for ch in chars:
                edge_inputs.append(base[:k] + ch + base[k + 1:])
    add("s_builtin2", "\n".join([
        'dg = { ASCII_DIGIT }', 'nz = { ASCII_NONZERO_DIGIT }', 'bn = { ASCII_BIN_DIGIT }', 'oc = { ASCII_OCT_DIGIT }', 'hx = { ASCII_HEX_DIGIT }',
        'lo = { ASCII_ALPHA_LOWER }', 'up = { ASCII_ALPHA_UPPER }', 'al = { ASCII_ALPHA }', 'an = { ASCII_ALPHANUMERIC }', 'asc = { ASCII }',
        'nl = { NEWLINE }',
        'q1 = { ASCII_HEX_DIGIT ~ ASCII_OCT_DIGIT ~ ASCII_BIN_DIGIT ~ ASCII_NONZERO_DIGIT }',
        'q2 = { ASCII_ALPHA_LOWER ~ ASCII_ALPHA_UPPER ~ ASCII_ALPHANUMERIC ~ ASCII }',
        'q3 = @{ (!NEWLINE ~ ANY)* ~ NEWLINE ~ ANY? }',
        'q4 = { (ASCII_DIGIT | NEWLINE)+ }',
        'q5 = { !(ASCII_ALPHANUMERIC | NEWLINE) ~ ASCII }']) + "\n", inputs=sorted(set(edge_inputs)), alpha=["a", "0", "\n"], exh=3)

    # -- C07: lookahead operands (sequence / repetition / rule reference of every kind) inside rules of every kind that are
    # reached from callers of every kind: the operand runs with the atomicity of the rule it is written in
    skips = {"w": ('WHITESPACE = _{ " " }\n', (" ",)), "c": ('COMMENT = _{ "#" }\n', ("#",)),
             "wc": ('WHITESPACE = _{ " " }\nCOMMENT = @{ "#" }\n', (" ", "#"))}
    shapes = ['&(pa ~ "b") ~ ANY', '&(pa* ~ "c") ~ ANY', '!(pa ~ "b") ~ ANY'] + [f"&(pk{ki}) ~ ANY" for ki in range(5)]
    for sname, (stext, chars) in skips.items():
        lines = ['pa = { "a" }'] + [f'pk{ki} = {KINDS[ki]}{{ "a" ~ "b" }}' for ki in range(5)]
        for km in range(5):
            for k, body in enumerate(shapes):
                lines.append(f"n{km}{k} = {KINDS[km]}{{ {body} }}")
                for ko in range(5):
                    lines.append(f'o{ko}{km}{k} = {KINDS[ko]}{{ "x" ~ n{km}{k} }}')
        bases = ["ab", "ac", "aac", "abc", "b", "c"]
        add(f"s_kindsp_{sname}", "\n".join(lines) + "\n" + stext, exh=2, alpha=["a", "b", "c", "x"] + list(chars)[:1],
            inputs_by_prefix=[("n", insert_variants(bases, chars)), ("p", insert_variants(["ab", "a"], chars)),
                              ("o", insert_variants(["x" + b for b in bases], chars))])

    # -- C10: a sub-input parse that fails with nothing recorded (all sub-rules matched, then a literal fails; silent top
    # rule; attempts only under the matching polarity): the location must still lie inside the sub-input
    add("s_c10sub", "\n".join([
        'a = { "x" }', 'b = { "y" }', 'main = { a ~ b ~ "!" }', 'sil = _{ a ~ b ~ "!" }',
        'neg = { !(a ~ b ~ "!") ~ a ~ b ~ "?" ~ "!" }', 'opt = { a ~ (b ~ "!")? ~ "." }', 'two = { main ~ main }']) + "\n",
        subinputs=["<<xy?>>", "ab\nxy?", "éxy!xy?", "x\r\nxy?!", "<xy!xy!>", "zxy!.x.y"], alpha=["x", "y", "!", "?"])

    # -- shapes of four further seeded changes: a non-atomic rule whose whole body is a reference to an @ / $ rule (trailing skip
    # of the full entry points), a sequence whose FIRST item consumes nothing (SOI / lookahead / empty string) before a skip,
    # PEEK[a..b] with equal / decreasing bounds of one sign at small depths (empty slice in range, out of range, inverted),
    # POP_ALL / PEEK_ALL of a pushed span whose text continues beyond the end of a Span sub-input
    add("s_shapes", "\n".join([
        'num = @{ ASCII_DIGIT+ }', 'cnum = ${ ASCII_DIGIT+ }', 'value = { num }', 'cvalue = { cnum }', 'svalue = _{ num }', 'nvalue = !{ num }',
        'vvalue = { value }', 'lst = { value ~ ("," ~ value)* }', 'top = { SOI ~ value ~ EOI }', 'top2 = { SOI ~ "x" ~ EOI }',
        'top3 = { &"x" ~ "x" ~ "4"? }', 'top4 = { "" ~ "x" ~ !"x" ~ "4" }', 'top5 = ${ SOI ~ "x" ~ EOI }',
        'p0 = { PUSH("a") ~ PEEK[2..2] }', 'p1 = { PUSH("a") ~ PEEK[1..0] ~ "b"? }', 'p2 = { PUSH("a") ~ PUSH("b") ~ PEEK[1..1] ~ "x" }',
        'p3 = { PUSH("a") ~ PEEK[-1..-1] ~ "a" }', 'p4 = { PUSH("a") ~ PUSH("b") ~ PEEK[-1..-2] }', 'p5 = { PUSH("a") ~ PUSH("b") ~ PEEK[3..1] }',
        'p6 = { PEEK[0..0] ~ "a" }', 'p7 = { PUSH("a") ~ PUSH("b") ~ PEEK[2..2] ~ "a" }', 'p8 = { PUSH("a") ~ PUSH("b") ~ PEEK[-3..-3] }',
        'p9 = { PUSH("a") ~ (PEEK[1..1] | PEEK[2..2] | PEEK[-2..-2]) ~ "b" }', 'p10 = @{ PUSH("a") ~ PEEK[1..1] ~ PEEK[0..0] ~ PEEK[-1..-1] ~ PEEK[0..1] }',
        'pa = ${ PUSH("ab") ~ "-" ~ POP_ALL }', 'pb = { PUSH("ab") ~ PUSH("x") ~ "-" ~ PEEK_ALL ~ "4"? }',
        'WHITESPACE = _{ " " }']) + "\n",
        inputs=["42 ", "42", " 42", "4 2", "42 ,7", "42, 7 ", "42 , 7", "4,4 ", "4  ", " x", "x ", " x ", "x", "x4", "x 4", " x4", "a", "ab", "aa", "abx", "ab x",
                "aba", "a a", "abab", "ab a", "ab-ab", "ab-a", "ab -ab", "abx-xab", "abx-xab4", "ab x - x ab 4", "abx-xa", "a b"],
        subinputs=["ab-ab", "xab-abab", "abx-xab4", "42 ,7 x"], alpha=["4", " ", "a", "b", "x"], exh=3)

    # -- C08: sub-inputs of long strings: every cut of strings of 10-16 characters (a CR|LF pair split by the end, the
    # terminator of a skip_until just beyond the end, literals straddling the end, multi-byte characters next to both cuts)
    add("s_sub", "\n".join([
        's0 = @{ (!"end" ~ ANY)* }',
        's1 = @{ (!("ab" | "\\r\\n") ~ ANY)* ~ ("ab" | NEWLINE) }',
        's2 = { (NEWLINE | "a" | "é")+ }',
        's3 = { "abcdefgh" | ^"ABCDefgh" ~ "é" | "abc" ~ &EOI | ^"ab" }',
        's4 = { PUSH("ab" | "é" | NEWLINE) ~ "-"? ~ PEEK ~ POP? }',
        "s5 = { ('a'..'f' | 'à'..'ÿ')+ ~ EOI }",
        's6 = { (SOI ~ "a")? ~ (!"\\n" ~ ANY)* ~ EOI }',
        's7 = { ANY ~ !SOI ~ (!"cd" ~ ANY)* ~ ("cd" | EOI) }',
        's8 = { (!"end" ~ ANY)* ~ "end" }']) + "\n",
        subinputs=["ab\r\nabcdefghend", "éab-ab\r\né-éend中", "ABCDefghé\rend\n", "aébcdàÿf\r\n\r\nab"], alpha=["a", "b", "e", "\n"], exh=3)
    return gs


# The test alphabet of harness/tools/src/bin/uni_table.rs (checked against the tool's `#alphabet` line).
UNI_ALPHABET = ("abfzABFZ0179 \t\n\r_-+$()\".#~^/x\x00\x7f" "éÉßª²\u00a0«×ǅ" "Ωωжאا٣कก中あア가Ⅰʰ"
                "\u0301\u0903\u20dd\u200d\u200e\u2028\u2029\u3000€‿\U0001F600\ue000\u0378\U0010ffff")


def ensure_uni_table(path=None):
    """Writes pest's Unicode property tables restricted to UNI_ALPHABET (tools/uni_table) to `path` (default
    build/uni_table.tsv) and exports VERIF_UNI_TABLE (unless already set), so that every model_driver started by
    this process answers `charBy name` exactly as pest does on the alphabet.  Returns the path."""
    exe = os.path.join(TARGET, "release", "uni_table")
    if not os.path.exists(exe):
        ensure_tools()
    out = subprocess.run([exe], capture_output=True, text=True, check=True).stdout
    first = out.split("\n", 1)[0].split("\t")
    if first[0] != "#alphabet" or unhex(first[1]) != UNI_ALPHABET:
        raise RuntimeError("uni_table's alphabet differs from corpus.UNI_ALPHABET")
    path = path or os.path.join(BUILD, "uni_table.tsv")
    os.makedirs(os.path.dirname(path), exist_ok=True)
    if not os.path.exists(path) or open(path).read() != out:
        tmp = f"{path}.{os.getpid()}.tmp"
        open(tmp, "w").write(out)
        os.replace(tmp, path)
    os.environ.setdefault("VERIF_UNI_TABLE", path)
    return path


LITS = ['"a"', '"b"', '"ab"', '"ba"', '^"a"', "'a'..'b'", '"c"', '""']
LITS_MB = ['"a"', '"é"', '"aé"', '"中a"', '^"aé"', "'a'..'é'", '"中"', '""']
BUILT = ["ANY", "SOI", "EOI", "ASCII_DIGIT", "NEWLINE"]
STACK = ["PEEK", "POP", "DROP", "PEEK_ALL", "POP_ALL"]


def random_grammar(rnd, gid, mode):
    """mode: plain | stacky | recursive | multibyte.  Skip rules are atomic or literal-bodied."""
    stacky = mode == "stacky"
    recursive = mode == "recursive"
    lits = LITS_MB if mode == "multibyte" else LITS
    nrules = rnd.randint(2, 5)
    names = [f"r{i}" for i in range(nrules)]
    stack_ok = stacky or rnd.random() < 0.35

    def expr(depth, later):
        r = rnd.random()
        if recursive and rnd.random() < 0.12:
            return "(" + rnd.choice(['"a"', '"b"', '"c"']) + " ~ " + rnd.choice(names) + ")"
        if depth <= 0 or r < 0.22:
            r2 = rnd.random()
            if later and r2 < 0.25:
                return rnd.choice(later)
            if stack_ok and r2 < 0.25 + (0.5 if stacky else 0.2):
                if rnd.random() < 0.3:
                    a = rnd.randint(-3, 3)
                    if rnd.random() < 0.5:
                        return f"PEEK[{a}..]"
                    return f"PEEK[{a}..{rnd.randint(-3, 3)}]"
                return rnd.choice(STACK)
            if r2 < 0.9:
                return rnd.choice(lits[:7])
            return rnd.choice(BUILT)
        k = rnd.random()
        sub = lambda: expr(depth - 1, later)
        if k < 0.30:
            return "(" + " ~ ".join(sub() for _ in range(rnd.randint(2, 3))) + ")"
        if k < 0.50:
            return "(" + " | ".join(sub() for _ in range(rnd.randint(2, 3))) + ")"
        if k < 0.60:
            return "(" + sub() + ")?"
        if k < 0.72:
            return "(" + sub() + ")*"
        if k < 0.78:
            return "(" + sub() + ")+"
        if k < 0.84:
            return "(" + sub() + ")" + rnd.choice(["{2}", "{1,}", "{,2}", "{1,2}", "{0,1}"])
        if k < 0.89:
            return "&(" + sub() + ")"
        if k < 0.94:
            return "!(" + sub() + ")"
        if stack_ok:
            return "PUSH(" + sub() + ")"
        return sub()
    lines = []
    ws = rnd.random() < 0.7
    cm = rnd.random() < 0.3
    for i, n in enumerate(names):
        k = rnd.choice(["", "", "_", "@", "$", "!"])
        e = expr(rnd.randint(1, 3), names[i + 1:])
        if stacky:
            pre = " ~ ".join("PUSH(" + rnd.choice(['"a"', '"b"', '"ab"', "'a'..'b'", '""']) + ")" for _ in range(rnd.randint(1, 2)))
            e = "(" + pre + " ~ " + e + ")"
        lines.append(f"{n} = {k}{{ {e} }}")
    if ws:
        lines.append("WHITESPACE = %s{ %s }" % (rnd.choice(["_", "@"]), rnd.choice(['" "', '" "', '" " | "c"'])))
    if cm:
        lines.append('COMMENT = @{ "/" ~ (!"/" ~ ANY)* ~ "/" }')
    return {"gid": gid, "text": "\n".join(lines) + "\n"}


def random_grammars(seed, n, modes=("plain", "stacky", "recursive", "multibyte")):
    rnd = random.Random(seed)
    return [random_grammar(rnd, f"g{seed}_{i}", modes[i % len(modes)]) for i in range(n)]


# ---------------------------------------------------------------------------------------------
# validation

def ensure_tools():
    exe = os.path.join(TARGET, "release", "dump_ast")
    tools = os.path.join(HERE, "tools")
    lock = os.path.join(tools, "Cargo.lock")
    if not os.path.exists(lock):
        subprocess.check_call(["cp", "/repo/Cargo.lock", lock])
    subprocess.check_call(["cargo", "build", "--offline", "--release", "-q"], cwd=tools, env=ENV)
    return exe


def validate(grammars, need_pest=True, need_wf=True):
    """Adds sexp / rules / alphabet to each grammar; returns (accepted, rejected)."""
    exe = ensure_tools()
    ensure_uni_table()   # exports VERIF_UNI_TABLE: every model_driver started from this process loads pest's Unicode tables
    inp = "".join(f"{g['gid']}\t{hexs(g['text'])}\n" for g in grammars)
    out = subprocess.run([exe], input=inp, capture_output=True, text=True, check=True).stdout
    by = {}
    for line in out.splitlines():
        f = line.split("\t")
        by[f[0]] = f
    ok, bad = [], []
    for g in grammars:
        f = by.get(g["gid"])
        if not f or f[1] != "OK":
            g["reject"] = "pest_meta: " + (unhex(f[2]) if f else "no output")
            bad.append(g)
            continue
        g["sexp"] = f[2]
        g["pestok"] = f[3] == "PESTOK"
        sx = parse_sexp(f[2])
        g["rules"] = [(r[1], r[2]) for r in sx[2:]]
        g["alphabet"] = alphabet_of(sx)
        g["uses_stack"] = bool(re.search(r"PUSH|PEEK|POP|DROP", g["text"]))
        if "(unsupported)" in f[2]:
            g["reject"] = "unsupported constructor"
            bad.append(g)
            continue
        if need_pest and not g["pestok"]:
            g["reject"] = "pest's validate_pairs rejects"
            bad.append(g)
            continue
        # handwritten systematic grammars are known to terminate (e.g. `DROP*` ends when the stack is empty)
        why = analyse(sx) if need_wf and not g["gid"].startswith("s_") else None
        if why:
            g["reject"] = "not well-founded: " + why
            bad.append(g)
            continue
        ok.append(g)
    return ok, bad


# ---------------------------------------------------------------------------------------------
# workspace emission

MAIN_HEAD = '''#![allow(warnings)]
use vh_common::{run_typed, run_pest, CaseFn};
'''

MOD_T = '''
pub mod t_@GID@ {
    use pest_typed_derive::TypedParser;
    #[derive(TypedParser)]
    #[grammar_inline = r##"@TEXT@"##]
    @ATTRS@
    pub struct P;
}
'''
MOD_P = '''
pub mod p_@GID@ {
    #[derive(pest_derive::Parser)]
    #[grammar_inline = r##"@TEXT@"##]
    pub struct P;
}
'''
FN_T = '''fn t_@GID@_@RULE@<'i>(e: &str, f: &str, a: usize, b: usize, i: &'i str) -> String {
    let mut s = run_typed::<t_@GID@::Rule, t_@GID@::rules::r#@RULE@<'i>>(e, f, a, b, i);
    // the derived `TypedParser` impl's convenience methods (main/src/lib.rs) on the same input
    if f == "str" && e == "parse" {
        s.push_str(match <t_@GID@::P as pest_typed::TypedParser<t_@GID@::Rule>>::try_parse::<t_@GID@::rules::r#@RULE@<'i>>(i) { Ok(_) => "\\ttp=ok", Err(_) => "\\ttp=fail" });
    } else if f == "str" && e == "check" {
        s.push_str(match <t_@GID@::P as pest_typed::TypedParser<t_@GID@::Rule>>::try_check::<t_@GID@::rules::r#@RULE@<'i>>(i) { Ok(_) => "\\ttp=ok", Err(_) => "\\ttp=fail" });
    }
    s
}
'''
FN_P = '''fn p_@GID@_@RULE@(i: &str) -> String { run_pest::<p_@GID@::Rule, p_@GID@::P>(p_@GID@::Rule::r#@RULE@, i) }
'''
# a SILENT entry rule: pest's `Parser::parse(Rule::r, input)` runs it too and returns the forest of its children, but
# no end offset (run_pest's `end` is the first pair's): marked `pest=silent:…`, verdict and forest are compared (C01, C02)
FN_PS = '''fn p_@GID@_@RULE@(i: &str) -> String { format!("silent:{}", run_pest::<p_@GID@::Rule, p_@GID@::P>(p_@GID@::Rule::r#@RULE@, i)) }
'''


def fill(t, **kw):
    for k, v in kw.items():
        t = t.replace("@" + k + "@", str(v))
    return t


def emit_workspace(grammars, outdir, nbins, attrs="", with_pest=True, profile_note="", prefix="b"):
    """Writes a cargo workspace with `nbins` binary crates b0..; returns {gid: bin index}."""
    os.makedirs(outdir, exist_ok=True)
    bins = [[] for _ in range(nbins)]
    # balance by grammar size
    order = sorted(grammars, key=lambda g: -len(g["rules"]))
    loads = [0] * nbins
    where = {}
    for g in order:
        k = loads.index(min(loads))
        bins[k].append(g)
        loads[k] += len(g["rules"]) + 2
        where[g["gid"]] = k
    members = []
    for b, glist in enumerate(bins):
        if not glist:
            continue
        d = os.path.join(outdir, f"{prefix}{b}")
        os.makedirs(os.path.join(d, "src"), exist_ok=True)
        members.append(f"{prefix}{b}")
        with open(os.path.join(d, "Cargo.toml"), "w") as f:
            f.write(f'''[package]
name = "{prefix}{b}"
version = "0.0.0"
edition = "2021"
[dependencies]
vh_common = {{ path = "{HERE}/common" }}
pest_typed = {{ path = "/repo/main" }}
pest_typed_derive = {{ path = "/repo/derive" }}
pest = "=2.7.14"
pest_derive = "=2.7.14"
''')
        code = [MAIN_HEAD]
        arms = []
        for g in glist:
            gid = g["gid"]
            code.append(fill(MOD_T, GID=gid, TEXT=g["text"], ATTRS=attrs))
            use_pest = with_pest and g.get("pestok", False)
            if use_pest:
                code.append(fill(MOD_P, GID=gid, TEXT=g["text"]))
            for (rule, kind) in g["rules"]:
                code.append(fill(FN_T, GID=gid, RULE=rule))
                pf = "None"
                if use_pest:
                    code.append(fill(FN_PS if kind == "silent" else FN_P, GID=gid, RULE=rule))
                    pf = f"Some(p_{gid}_{rule} as fn(&str) -> String)"
                arms.append(f'        ("{gid}", "{rule}") => Some((t_{gid}_{rule} as CaseFn, {pf})),')
        code.append("fn dispatch(gid: &str, rule: &str) -> Option<(CaseFn, Option<fn(&str) -> String>)> {\n    match (gid, rule) {\n" + "\n".join(arms) + "\n        _ => None,\n    }\n}\n")
        code.append("fn main() { vh_common::serve(dispatch); }\n")
        path = os.path.join(d, "src", "main.rs")
        new = "\n".join(code)
        old = open(path).read() if os.path.exists(path) else None
        if old != new:
            open(path, "w").write(new)
    ws = "[workspace]\nresolver = \"2\"\nmembers = [" + ", ".join(f'"{m}"' for m in members) + "]\n" + PROFILE + profile_note
    open(os.path.join(outdir, "Cargo.toml"), "w").write(ws)
    subprocess.check_call(["cp", "/repo/Cargo.lock", os.path.join(outdir, "Cargo.lock")])
    return where


def build_workspace(outdir, release=False, target=None, keep_going=False):
    env = dict(ENV)
    if target:
        env["CARGO_TARGET_DIR"] = target
    cmd = ["cargo", "build", "--offline", "-q"] + (["--release"] if release else []) + (["--keep-going"] if keep_going else [])
    p = subprocess.run(cmd, cwd=outdir, env=env, capture_output=True, text=True)
    return p.returncode, p.stderr


# ---------------------------------------------------------------------------------------------
# inputs and cases

def inputs_for(g, rnd, maxlen, nrand, extra_alpha=()):
    alpha = list(g["alphabet"])
    for c in extra_alpha:
        if c not in alpha:
            alpha.append(c)
    if not alpha:
        alpha = ["a"]
    if g.get("alpha"):
        # the grammar names the alphabet of its exhaustive part itself (built-ins contribute no literal characters)
        alpha = list(g["alpha"])
    else:
        # keep the exhaustive part small: at most 5 symbols, prefer the grammar's own
        full = alpha
        alpha = alpha[:5]
        if " " not in alpha and re.search(r"WHITESPACE|COMMENT", g["text"]):
            # a blank is one of the exhaustive symbols when the grammar knows it (or there is room): it must not push out
            # the grammar's own skip character (COMMENT = _{ "#" } of the kind-nesting family)
            if " " in full or len(alpha) < 5:
                alpha = alpha[:4] + [" "]
    res = [""]
    frontier = [""]
    for _ in range(maxlen):
        nxt = [s + c for s in frontier for c in alpha]
        res.extend(nxt)
        frontier = nxt
    res.extend(x for x in g.get("inputs", []) if x not in res)
    big = list(g["alphabet"]) + [" ", "/", "#", "\n", "\r", "x", "0", "é", "中", "\U0001F600"]
    for _ in range(nrand):
        n = rnd.randint(maxlen + 1, maxlen + 6)
        res.append("".join(rnd.choice(big if rnd.random() < 0.3 else alpha) for _ in range(n)))
    return res


def boundaries(s):
    out = [0]
    off = 0
    for c in s:
        off += len(c.encode("utf-8"))
        out.append(off)
    return out
