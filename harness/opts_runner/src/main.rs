//! opts_runner: prints the token stream `pest_typed_generator::derive_typed_parser` produces (the
//! function the derive macro forwards to, with the same flags) for each grammar on stdin under the
//! attribute list given as the first argument.  One process = one set of hash seeds; check C20 runs
//! it several times per option set and requires byte-identical output.
//!
//! stdin:  `<gid>\t<hex of grammar text>` per line
//! argv:   the derive attributes, e.g. `#[box_only_if_needed] #[pest_optimizer = false]` (may be empty)
//! stdout: `<gid>\tOK\t<token stream, one line>` or `<gid>\tPANIC\t<message>`
//! env:    `OPTS_RUNNER_FILE_DIR=<dir>`: the grammar is written to `<dir>/<gid>.pest` and derived through
//!         `#[grammar = "<gid>.pest"]` with `CARGO_MANIFEST_DIR=<dir>` (the `collect_data` / `include_str!` path of
//!         generator/src/helper.rs) instead of `#[grammar_inline = …]`
use std::io::{BufRead, Write};
use std::str::FromStr;

fn unhex(s: &str) -> String {
    if s == "-" {
        return String::new();
    }
    let b: Vec<u8> = (0..s.len()).step_by(2).map(|i| u8::from_str_radix(&s[i..i + 2], 16).unwrap()).collect();
    String::from_utf8(b).unwrap()
}

fn main() {
    let attrs = std::env::args().nth(1).unwrap_or_default();
    let file_dir = std::env::var("OPTS_RUNNER_FILE_DIR").ok();
    if let Some(d) = &file_dir {
        std::env::set_var("CARGO_MANIFEST_DIR", d);
    }
    std::panic::set_hook(Box::new(|_| {}));
    let stdin = std::io::stdin();
    let out = std::io::stdout();
    let mut out = out.lock();
    for line in stdin.lock().lines() {
        let line = line.unwrap();
        let mut it = line.split('\t');
        let gid = it.next().unwrap_or("").to_string();
        let text = unhex(it.next().unwrap_or("-"));
        let src = match &file_dir {
            Some(d) => {
                std::fs::write(std::path::Path::new(d).join(format!("{}.pest", gid)), &text).expect("cannot write the grammar file");
                format!("#[derive(TypedParser)]\n#[grammar = {:?}]\n{}\npub struct P;", format!("{}.pest", gid), attrs)
            }
            None => format!("#[derive(TypedParser)]\n#[grammar_inline = {:?}]\n{}\npub struct P;", text, attrs),
        };
        let res = std::panic::catch_unwind(move || {
            let input = proc_macro2::TokenStream::from_str(&src).expect("derive input does not lex");
            pest_typed_generator::derive_typed_parser(input, true, true).to_string()
        });
        match res {
            Ok(s) => writeln!(out, "{}\tOK\t{}", gid, s.replace('\\', "\\\\").replace('\n', "\\n")).unwrap(),
            Err(e) => {
                let msg = e.downcast_ref::<String>().cloned().or_else(|| e.downcast_ref::<&str>().map(|s| s.to_string())).unwrap_or_default();
                writeln!(out, "{}\tPANIC\t{}", gid, msg.replace('\n', " ")).unwrap()
            }
        }
    }
}
