#!/usr/bin/env python3
"""Workspace generator for the accessor / traversal / eq-hash runners (properties C17, C15, C18).

Emits a cargo workspace under build/ws_acc whose binaries hold
  * derived grammars (current /repo generator + runtime through `#[derive(TypedParser)]`), and
  * raw node grammars (runtime generics instantiated directly, rawgen-style),
and for every rule struct an `acc_common::AccShow` impl (so that values are printed through the public
accessors), plus a dispatch function answering the entries
  acc   parse_partial, then every accessor                        (C17)
  trav  parse_partial, then PairTree / Pair helpers               (C15)
  eqh   all sub-ranges of the input: ==, Hash, Clone, Debug       (C18)
and the standard entries of `vh_common::run_typed` (parse_partial, ...).

Also: the designed grammar families of C17 (every arity 2..16 x overlapping alternatives, leaves) and the
hand-written recursive grammars of C15."""
import os, random, subprocess
import corpus, rawgen
from corpus import HERE, fill, PROFILE, hexs
from rawgen import S, rule, ws_rule, WS_SKIP

WS = os.path.join(corpus.BUILD, "ws_acc")
NBINS = 16
REPO = "/repo"       # the tree under test (the sensitivity self-test points this to a mutated copy)
HELPERS = HERE       # where the helper crates `common` and `acc_common` live

# ---------------------------------------------------------------------------------------------
# Rust text


def choice_body_args(n):
    return f"{n}, " + " ".join(f"(_{k}, {k})," for k in range(n - 1)) + f" ; (_{n - 1}, {n - 1})"


def seq_body_args(n):
    return f"{n}, " + " ".join(f"{k}," for k in range(n))


def custom_rule_impl(path, name, what, n):
    """AccShow for a (Both, boxed) rule struct whose content is a ChoiceN / SeqN of an arity that the tree under
    test may provide in the library or expand in the generated module: the content is rendered through its
    public accessor API by a macro that needs the arity only; no trait impl on the ChoiceN / SeqN type."""
    mac = "acc_choice_body" if what == "choice" else "acc_seq_body"
    args = choice_body_args(n) if what == "choice" else seq_body_args(n)
    return (f"    impl<'i, const INH: usize> AccShow for {path}<'i, INH> {{ fn acc(&self, out: &mut String) {{\n"
            f"        use std::fmt::Write as _;\n"
            f"        let _ = write!(out, \"(rule {name} B {{}} {{}} \", self.span.start(), self.span.end());\n"
            f"        acc_common::{mac}!(&*self.content, out, {args});\n"
            f"        out.push(')');\n    }} }}")


EMIT_OF_KIND = {"normal": "Both", "silent": "Expression", "atomic": "Span", "compound": "Both", "nonatomic": "Both"}


def rule_impl(path, name, emit):
    """AccShow for one rule struct."""
    if emit == "Both":
        body = f'acc_common::rule_both(out, "{name}", &self.span, &self.content)'
    elif emit == "Span":
        body = f'acc_common::rule_span(out, "{name}", &self.span)'
    else:
        body = f'acc_common::rule_expr(out, "{name}", &self.content)'
    return f"    impl<'i, const INH: usize> AccShow for {path}<'i, INH> {{ fn acc(&self, out: &mut String) {{ {body} }} }}"


def dispatch_fn(gid, rname, rpath, emit, atomic_pairs):
    """The CaseFn of one rule.  `rpath` is the struct path with its generics applied (for 'i)."""
    if emit == "Both":
        trav = f"acc_common::run_trav_tree::<t_{gid}::Rule, {rpath}>(f, a, b, i)"
    elif emit == "Span":
        trav = f"acc_common::run_trav_pair::<t_{gid}::Rule, {rpath}>(f, a, b, i)"
    else:
        trav = '"v=notpair".to_string()'
    return f'''fn t_{gid}_{rname}<'i>(e: &str, f: &str, a: usize, b: usize, i: &'i str) -> String {{
    match e {{
        "acc" => acc_common::run_acc::<t_{gid}::Rule, {rpath}>(f, a, b, i),
        "trav" => {trav},
        "eqh" => acc_common::run_eqh::<t_{gid}::Rule, {rpath}>(a, i, noise_{gid}),
        "uprint" => acc_common::run_uprint(i),
        _ => run_typed::<t_{gid}::Rule, {rpath}>(e, f, a, b, i),
    }}
}}
'''


def noise_fn(gid, paths):
    arms = "\n".join(f"        {k} => {{ let _ = <{p} as pest_typed::ParsableTypedNode<'_, t_{gid}::Rule>>::try_parse_partial(s); let _ = <{p} as pest_typed::ParsableTypedNode<'_, t_{gid}::Rule>>::try_check(s); }}"
                     for k, p in enumerate(paths))
    return f"fn noise_{gid}(k: usize, s: &str) {{\n    match k % {max(1, len(paths))} {{\n{arms}\n        _ => {{}}\n    }}\n}}\n"


ARITY_TOOL_DIR = os.path.join(corpus.BUILD, "acc_arity_tool")
TARGET_DIR = None     # cargo target dir of the tool (default corpus.TARGET; the self-test uses its own)


def generated_arities(grammars):
    """Asks the generator under test (as a library, acc_common/arity_tool) which SeqN / ChoiceN types each grammar's
    generated `generics` module defines in place (`seq!` / `choices!` expanded there: local types, the harness has to
    implement its show-trait for them in the generated binary) and which it re-exports from the runtime crate.
    Sets g["local_arities"] = [("Seq"|"Choice", n)...]."""
    d = ARITY_TOOL_DIR if REPO == "/repo" else os.path.join(os.path.dirname(WS), "acc_arity_tool")
    os.makedirs(os.path.join(d, "src"), exist_ok=True)
    toml = f'''[package]
name = "acc_arity"
version = "0.0.0"
edition = "2021"
[workspace]
[dependencies]
pest_typed_generator = {{ path = "{REPO}/generator" }}
proc-macro2 = "1"
[profile.dev]
debug = 0
incremental = false
'''
    for path, text in ((os.path.join(d, "Cargo.toml"), toml), (os.path.join(d, "src", "main.rs"), open(os.path.join(HERE, "acc_common", "arity_tool", "main.rs")).read())):
        if not os.path.exists(path) or open(path).read() != text:
            open(path, "w").write(text)
    subprocess.check_call(["cp", REPO + "/Cargo.lock", os.path.join(d, "Cargo.lock")])
    rc, err = corpus.build_workspace(d, False, TARGET_DIR)
    if rc != 0:
        raise RuntimeError("acc_arity tool does not build against the generator:\n" + err[-3000:])
    exe = os.path.join(TARGET_DIR or corpus.TARGET, "debug", "acc_arity")
    inp = "".join(f"{g['gid']}\t{hexs(g['text'])}\t{hexs(g.get('attrs', ''))}\n" for g in grammars)
    out = subprocess.run([exe], input=inp, capture_output=True, text=True).stdout
    by = {}
    for line in out.splitlines():
        f = line.split("\t")
        if len(f) >= 5 and f[1] == "OK":
            by[f[0]] = [[x for x in fld.split("=", 1)[1].split(",") if x] for fld in f[2:5]]
    ar = lambda x: ("Seq", int(x[3:])) if x.startswith("Seq") else ("Choice", int(x[6:]))
    for g in grammars:
        if g["gid"] not in by:
            raise RuntimeError(f"acc_arity: the generator gave no module for grammar {g['gid']}")
        local, lib, uni = by[g["gid"]]
        g["local_arities"] = [ar(x) for x in local]
        g["lib_arities"] = [ar(x) for x in lib]
        g["uni_types"] = uni
    return grammars


def build_env(derived):
    """What acc_common has to implement its show-trait for (its build.rs reads these variables): the library
    SeqN / ChoiceN the generator re-exports for the corpus grammars, the arities 2..12 the raw instantiations
    (rawgen.RustPrinter) and the runtime's built-in aliases name, and the Unicode property types in use."""
    ars = {(k, n) for n in range(2, 13) for k in ("Seq", "Choice")}
    uni = set()
    for g in derived:
        ars |= set(g.get("lib_arities", []))
        uni |= set(g.get("uni_types", []))
    return {"ACC_LIB_ARITIES": ",".join(f"{k}{n}" for k, n in sorted(ars)), "ACC_UNICODE": ",".join(sorted(uni))}


def choice_macro_args(n):
    parts = [f"(T{k}, _{k}, {k})," for k in range(n - 1)]
    return f"Choice{n}, {n}, " + " ".join(parts) + f" ; (T{n - 1}, _{n - 1}, {n - 1})"


def seq_macro_args(n):
    return f"Seq{n}, {n}, " + " ".join(f"(T{k}, {k})," for k in range(n))


MOD_T = '''
pub mod t_@GID@ {
    use pest_typed_derive::TypedParser;
    #[derive(TypedParser)]
    #[grammar_inline = r##"@TEXT@"##]
    @ATTRS@
    pub struct P;
}
'''


def derived_code(g):
    gid = g["gid"]
    code = [fill(MOD_T, GID=gid, TEXT=g["text"], ATTRS=g.get("attrs", ""))]
    impls = [f"mod acc_{gid} {{", f"    use super::t_{gid} as g;", "    use g::generics;", "    use acc_common::AccShow;"]
    # the SeqN / ChoiceN types this module defines itself (reported by the generator): local types, so the trait of
    # acc_common can be implemented for them here; library arities are implemented in acc_common (build.rs)
    for kind_, n in g.get("local_arities", []):
        impls.append(f"    use g::generics::{kind_}{n};")
        impls.append(f"    acc_common::acc_{'seq' if kind_ == 'Seq' else 'choice'}!({seq_macro_args(n) if kind_ == 'Seq' else choice_macro_args(n)});")
    impls.append(rule_impl("g::rules::EOI", "EOI", "Both"))
    fns, arms, paths = [], [], []
    for (rname, kind) in g["rules"]:
        emit = EMIT_OF_KIND[kind]
        if rname in g.get("custom", {}):
            impls.append(custom_rule_impl(f"g::rules::r#{rname}", rname, *g["custom"][rname]))
        else:
            impls.append(rule_impl(f"g::rules::r#{rname}", rname, emit))
        rpath = f"t_{gid}::rules::r#{rname}<'i>"
        fns.append(dispatch_fn(gid, rname, rpath, emit, kind))
        arms.append(f'        ("{gid}", "{rname}") => Some((t_{gid}_{rname} as CaseFn, None)),')
        paths.append(f"t_{gid}::rules::r#{rname}<'_>")
    impls.append("}")
    code.append("\n".join(impls))
    code.append(noise_fn(gid, paths))
    code.extend(fns)
    return "\n".join(code), arms


def raw_code(g):
    gid = g["gid"]
    pr = rawgen.RustPrinter(gid)
    skipped = pr.ty(g["skipped"])
    rules, impls, fns, arms, paths = [], [], [], [], []
    impls += [f"mod acc_{gid} {{", f"    use super::t_{gid} as g;", "    use acc_common::AccShow;"]
    impls.append(rule_impl("g::rules::EOI", "EOI", "Both"))
    for r in g["rules"]:
        inner = pr.ty(r["body"])
        rules.append(f'pest_typed::rule!({r["name"]}, "raw", super::Rule, super::Rule::{r["name"]}, {inner}, Skipped<\'i>, {r["atom"]}, {r["emit"]}, {"true" if r["boxed"] else "false"});')
        impls.append(rule_impl(f"g::rules::{r['name']}", r["name"], r["emit"]))
        rpath = f"t_{gid}::rules::{r['name']}<'i, 1>"
        fns.append(dispatch_fn(gid, r["name"], rpath, r["emit"], None))
        arms.append(f'        ("{gid}", "{r["name"]}") => Some((t_{gid}_{r["name"]} as CaseFn, None)),')
        paths.append(f"t_{gid}::rules::{r['name']}<'_, 1>")
    impls.append("}")
    code = [fill(rawgen.MOD, GID=gid, RULENAMES=", ".join(r["name"] for r in g["rules"]), SKIPPED=skipped,
                 WRAPPERS="\n".join(pr.wrappers), RULES="\n        ".join(rules))]
    code.append("\n".join(impls))
    code.append(noise_fn(gid, paths))
    code.extend(fns)
    return "\n".join(code), arms


def emit_workspace(derived, raw, outdir=WS, nbins=NBINS, prefix="a"):
    """derived: validated corpus grammars (dicts with gid/text/rules[/local_choices/local_seqs]);
    raw: rawgen-style node grammars.  Returns {gid: bin index}."""
    os.makedirs(outdir, exist_ok=True)
    bins = [[] for _ in range(nbins)]
    loads = [0] * nbins
    where = {}
    allg = [("d", g, len(g["rules"]) + 3 + 9 * len(g.get("custom", {})) + sum(n for _, n in g.get("local_arities", [])) // 2) for g in derived] + \
           [("r", g, len(g["rules"]) // 3 + 2) for g in raw]
    for kind, g, w in sorted(allg, key=lambda x: -x[2]):
        k = loads.index(min(loads))
        bins[k].append((kind, g))
        loads[k] += w
        where[g["gid"]] = k
    members = []
    for b, glist in enumerate(bins):
        if not glist:
            continue
        d = os.path.join(outdir, f"{prefix}{b}")
        os.makedirs(os.path.join(d, "src"), exist_ok=True)
        members.append(f"{prefix}{b}")
        toml = f'''[package]
name = "{prefix}{b}"
version = "0.0.0"
edition = "2021"
[dependencies]
vh_common = {{ path = "{HELPERS}/common" }}
acc_common = {{ path = "{HELPERS}/acc_common" }}
pest_typed = {{ path = "{REPO}/main" }}
pest_typed_derive = {{ path = "{REPO}/derive" }}
pest = "=2.7.14"
'''
        tp = os.path.join(d, "Cargo.toml")
        if not os.path.exists(tp) or open(tp).read() != toml:
            open(tp, "w").write(toml)
        code = ["#![allow(warnings)]\n#![recursion_limit = \"512\"]\nuse vh_common::{run_typed, CaseFn};\n"]
        arms = []
        for kind, g in glist:
            c, a = derived_code(g) if kind == "d" else raw_code(g)
            code.append(c)
            arms += a
        code.append("fn dispatch(gid: &str, rule: &str) -> Option<(CaseFn, Option<fn(&str) -> String>)> {\n    match (gid, rule) {\n" + "\n".join(arms) + "\n        _ => None,\n    }\n}\n")
        code.append("fn main() { vh_common::serve(dispatch); }\n")
        path = os.path.join(d, "src", "main.rs")
        new = "\n".join(code)
        old = open(path).read() if os.path.exists(path) else None
        if old != new:
            open(path, "w").write(new)
    ws = "[workspace]\nresolver = \"2\"\nmembers = [" + ", ".join(f'"{m}"' for m in members) + "]\n" + PROFILE
    wp = os.path.join(outdir, "Cargo.toml")
    if not os.path.exists(wp) or open(wp).read() != ws:
        open(wp, "w").write(ws)
    subprocess.check_call(["cp", REPO + "/Cargo.lock", os.path.join(outdir, "Cargo.lock")])
    return where


def dump_sexp(x):
    return x if isinstance(x, str) else "(" + " ".join(dump_sexp(c) for c in x) + ")"


def model_sexp(g):
    """The grammar as the model driver reads it.  Under `#[pest_optimizer = false]` the generator walks the raw AST
    (typed.rs:56-80, Model/GenOpts.lean `pickAst`), and with default boxing `genWith cfg o r = gen r`: the model gets
    the raw expressions in the place of the optimized ones."""
    if "pest_optimizer = false" not in g.get("attrs", ""):
        return g["sexp"]
    sx = corpus.parse_sexp(g["sexp"])
    return dump_sexp(sx[:2] + [[r[0], r[1], r[2], r[4], r[4]] if isinstance(r, list) and r and r[0] == "rule" else r for r in sx[2:]])


def sexp_lines(derived, raw):
    return [model_sexp(g) for g in derived] + [rawgen.grammar_sexp(g) for g in raw]


# ---------------------------------------------------------------------------------------------
# C17: designed families

POOL = [S("a"), S("ab"), S("b"), S("aa"), ("range", "a", "b"), ("any",), ("insens", "A"), ("insens", "aB"),
        ("opt", S("a")), ("seq", "0", [S("a"), S("b")]), ("rep", "0", 1, 2, S("a")), ("neg", S("ab")), ("pos", S("a")),
        ("choice", [S("ab"), S("a")]), S("é"), ("soi",), ("newline",)]


def arity_raw(seed=0, tag=""):
    """Every library arity 2..12.  Per arity n:
      cs_n   choice of n strings "a"*(n-k) (overlapping prefixes), payload is the leaf itself
      cr_n   choice of n rule references cr_n_a0.. whose bodies are drawn (seeded) from a pool of overlapping nodes
      sq_n   sequence (SKIP = 1) of n rule references sq_n_e0.. (bodies cycle "a" / "b"? / 'c'..'d')
      sl_n   sequence (SKIP = 0) of n leaves (no rules)
    and one rule per alternative (cs_n_a<k>, cr_n_a<k>) so that the oracle can try each alternative on its own."""
    rnd = random.Random(seed)
    gs = []
    for n in range(2, 13):
        rules = [ws_rule()]
        alts = [S("a" * (n - k)) for k in range(n)]
        rules.append(rule(f"cs_{n}", ("choice", alts)))
        for k, a in enumerate(alts):
            rules.append(rule(f"cs_{n}_a{k}", a))
        bodies = [rnd.choice(POOL) for _ in range(n)]
        # make sure the later alternatives are reachable sometimes: never put an always-matching node first
        always = lambda b: b[0] in ("opt", "neg") and False
        rules.append(rule(f"cr_{n}", ("choice", [("ref", f"cr_{n}_a{k}", "INHERITED") for k in range(n)])))
        for k, b in enumerate(bodies):
            rules.append(rule(f"cr_{n}_a{k}", b))
        elem = lambda k: [S("a"), ("opt", S("b")), ("range", "c", "d")][k % 3]
        rules.append(rule(f"sq_{n}", ("seq", "1", [("ref", f"sq_{n}_e{k}", "INHERITED") for k in range(n)])))
        for k in range(n):
            rules.append(rule(f"sq_{n}_e{k}", elem(k)))
        rules.append(rule(f"sl_{n}", ("seq", "0", [elem(k) for k in range(n)])))
        # a repetition of the choice and of the sequence: iter_matched over nested accessors
        rules.append(rule(f"rc_{n}", ("rep", "1", 0, None, ("ref", f"cs_{n}", "INHERITED"))))
        # silent (Expression) wrappers: no span of their own, so `==` between results of different sub-ranges is
        # decided by the SeqN / ChoiceN / repetition impls alone (C18)
        rules.append(rule(f"zq_{n}", ("seq", "1", [("ref", f"sq_{n}_e{k}", "INHERITED") for k in range(n)]), emit="Expression"))
        rules.append(rule(f"zc_{n}", ("choice", [("ref", f"cs_{n}_a{k}", "INHERITED") for k in range(n)]), emit="Expression"))
        gs.append(dict(gid=f"ar{tag}{n}", rules=rules, skipped=WS_SKIP, designed="arity", n=n))
    return gs


def arity_derived(arities=(2, 3, 12, 13, 14, 15, 16)):
    """The same families through the generator; arities >= 12 are instantiated by `choices!` / `seq!` inside
    the generated module."""
    gs = []
    for n in arities:
        lines = []
        strs = ['"' + "a" * (n - k) + '"' for k in range(n)]
        lines.append(f"cs_{n} = {{ " + " | ".join(strs) + " }")
        lines.append(f"cr_{n} = {{ " + " | ".join(f"cs_{n}_a{k}" for k in range(n)) + " }")
        for k in range(n):
            lines.append(f"cs_{n}_a{k} = {{ {strs[k]} }}")
        lines.append(f"sq_{n} = {{ " + " ~ ".join(f"e{k % 3}" for k in range(n)) + " }")
        lines.append(f"rc_{n} = {{ cs_{n}* }}")
        lines.append(f"zq_{n} = _{{ " + " ~ ".join(f"e{k % 3}" for k in range(n)) + " }")
        lines.append(f"zc_{n} = _{{ " + " | ".join(f"cs_{n}_a{k}" for k in range(n)) + " }")
        lines.append('e0 = { "a" }')
        lines.append('e1 = { "b"? }')
        lines.append("e2 = { 'c'..'d' }")
        lines.append('WHITESPACE = _{ " " }')
        g = {"gid": f"ad{n}", "text": "\n".join(lines) + "\n", "designed": "arity", "n": n}
        if n >= 12:
            # where Choice12.. / Seq12.. live (library or generated module) is the generator's business
            g["custom"] = {f"cs_{n}": ("choice", n), f"cr_{n}": ("choice", n), f"sq_{n}": ("seq", n)}
        gs.append(g)
    return gs


def leaf_raw():
    """Every leaf kind as the whole body of a rule (so that the rule's span delimits what the leaf consumed)."""
    P3 = ("push", ("choice", [S("ab"), S("a"), S("b"), S("é")]))
    rules = [ws_rule(),
             rule("l_range", ("range", "a", "é")),
             rule("l_any", ("any",)),
             rule("l_insens", ("insens", "aBé")),
             rule("l_insens2", ("insens", "k")),
             rule("l_newline", ("newline",)),
             rule("l_until", ("skipuntil", ["ab", "c"])),
             rule("l_until_e", ("skipuntil", [""])),
             rule("l_skipn", ("skipchars", 2), atom="true"),
             rule("l_str", S("aé")),
             rule("l_peek", ("peek",)),
             rule("l_pop", ("pop",)),
             rule("l_peekall", ("peekall",)),
             rule("l_popall", ("popall",)),
             rule("k_peek", ("seq", "0", [P3, ("ref", "l_peek", "INHERITED"), ("ref", "l_peek", "INHERITED")])),
             rule("k_pop", ("seq", "0", [P3, P3, ("ref", "l_pop", "INHERITED"), ("ref", "l_pop", "INHERITED")])),
             rule("k_peekall", ("seq", "0", [P3, P3, ("ref", "l_peekall", "INHERITED")])),
             rule("k_popall", ("seq", "0", [P3, P3, ("ref", "l_popall", "INHERITED"), ("opt", ("ref", "l_peek", "INHERITED"))])),
             rule("k_lines", ("rep", "0", 0, None, ("choice", [("ref", "l_newline", "INHERITED"), ("ref", "l_range", "INHERITED")]))),
             rule("k_mix", ("seq", "1", [("ref", "l_insens", "INHERITED"), ("ref", "l_until", "INHERITED"), ("opt", ("ref", "l_any", "INHERITED"))])),
             ]
    return [dict(gid="lf", rules=rules, skipped=WS_SKIP, designed="leaf")]


def containers_raw():
    """Tuples, arrays (N >= 2), `RepeatMinMax` / `RepeatMin` with SKIP = 0 / 1, by direct instantiation, with
    DISTINGUISHABLE elements (rule structs with spans, choices); `z*` are silent (Expression) wrappers."""
    X, Y = ("ref", "x", "INHERITED"), ("ref", "y", "INHERITED")
    rules = [ws_rule(),
             rule("x", ("choice", [S("a"), S("b")])),
             rule("y", S("c")),
             rule("arr3", ("array", 3, X)),
             rule("arr2p", ("array", 2, ("pair", X, ("opt", Y)))),
             rule("pr", ("pair", X, Y)),
             rule("prr", ("pair", ("array", 2, X), ("rep", "1", 0, 2, Y))),
             rule("rmm13", ("rep", "1", 1, 3, X)),
             rule("rmm22", ("rep", "0", 2, 2, X)),
             rule("rmm03", ("rep", "1", 0, 3, ("seq", "1", [X, Y]))),
             rule("rmin2", ("rep", "1", 2, None, X)),
             rule("rmmc", ("rep", "1", 1, 3, ("choice", [S("ab"), S("a"), S("b")]))),
             rule("rmma", ("rep", "0", 1, 2, ("array", 2, X)), atom="true"),
             rule("zarr", ("array", 2, X), emit="Expression"),
             rule("zpr", ("pair", X, ("opt", Y)), emit="Expression"),
             rule("zrmm", ("rep", "1", 1, 3, X), emit="Expression"),
             rule("zrmin", ("rep", "1", 1, None, X), emit="Expression"),
             rule("zseq", ("seq", "1", [X, Y, X]), emit="Expression"),
             ]
    return [dict(gid="tp", rules=rules, skipped=WS_SKIP, designed="containers")]


CNT_TEXT = '''x = { "a" | "b" }
y = { "c" }
c0 = { x{2} }
c1 = { x{2,} }
c2 = { x{,3} }
c3 = { x{1,3} }
c4 = { ("a" | "b" | "ab"){1,3} ~ y{2} }
c5 = ${ x{2,3} ~ y{,2} }
c6 = @{ x{2} }
c7 = !{ (x ~ y){1,2} }
z0 = _{ x{1,3} }
z1 = _{ x{2} ~ y{,1} }
z2 = _{ (x ~ y){2,} }
z3 = _{ x ~ y ~ x }
z4 = _{ (x | y)+ }
WHITESPACE = _{ " " }
'''

STK_TEXT = '''t = { "ab" | "a" | "b" }
k0 = { PUSH(t) ~ PUSH(t) ~ ((POP ~ "x") | (PEEK ~ "y") | (DROP ~ POP) | "a") }
k0_p0 = { PUSH(t) ~ PUSH(t) ~ (POP ~ "x") }
k0_p1 = { PUSH(t) ~ PUSH(t) ~ (PEEK ~ "y") }
k0_p2 = { PUSH(t) ~ PUSH(t) ~ (DROP ~ POP) }
k0_p3 = { PUSH(t) ~ PUSH(t) ~ "a" }
k1 = { PUSH(t) ~ PUSH(t) ~ ((POP_ALL ~ "x") | (PEEK_ALL ~ "y") | (PEEK[0..1] ~ "x") | (DROP ~ DROP ~ "b") | PEEK) }
k1_p0 = { PUSH(t) ~ PUSH(t) ~ (POP_ALL ~ "x") }
k1_p1 = { PUSH(t) ~ PUSH(t) ~ (PEEK_ALL ~ "y") }
k1_p2 = { PUSH(t) ~ PUSH(t) ~ (PEEK[0..1] ~ "x") }
k1_p3 = { PUSH(t) ~ PUSH(t) ~ (DROP ~ DROP ~ "b") }
k1_p4 = { PUSH(t) ~ PUSH(t) ~ PEEK }
k2 = ${ PUSH(t) ~ ((POP ~ "x") | (PUSH("a") ~ POP ~ POP ~ "y") | (PEEK ~ PEEK)) }
k2_p0 = ${ PUSH(t) ~ (POP ~ "x") }
k2_p1 = ${ PUSH(t) ~ (PUSH("a") ~ POP ~ POP ~ "y") }
k2_p2 = ${ PUSH(t) ~ (PEEK ~ PEEK) }
'''
STK_CHOICES = {"k0": 4, "k1": 5, "k2": 3}
STACK_FAMILIES = {"stk": STK_CHOICES}     # gid -> {choice rule: arity}; alternatives-as-rules are <rule>_p<j>


# A branch that FAILS AFTER POPPING AND PUSHING (same or greater stack height, other content), then a stack-READING
# alternative that must be the first match, then a later alternative that also matches the input (overlap); fillers
# never match.  (n, index of the failing branch, of the reading one, of the overlapping one, variant)
STP_CONFIGS = [(3, 0, 1, 2, 0), (3, 0, 1, 2, 1), (5, 1, 3, 4, 0), (5, 0, 1, 4, 1), (6, 2, 3, 5, 2), (12, 0, 10, 11, 0),
               (13, 2, 7, 12, 1), (13, 0, 1, 2, 2), (14, 0, 12, 13, 0), (16, 3, 9, 15, 1)]
STP_RAW_CONFIGS = [c for c in STP_CONFIGS if c[0] <= 12]


def stp_name(cfg):
    return f"kp{cfg[0]}_{cfg[1]}_{cfg[2]}v{cfg[4]}"


def stp_alts(cfg):
    """pest text and raw node of every alternative."""
    n, p, q, r, v = cfg
    fail = [('(POP ~ PUSH("b") ~ "!")', ("seq", "0", [("pop",), ("push", S("b")), S("!")])),
            ('(DROP ~ PUSH("ab") ~ "!")', ("seq", "0", [("drop",), ("push", S("ab")), S("!")])),
            ('(POP ~ PUSH("b") ~ PUSH("?") ~ "!")', ("seq", "0", [("pop",), ("push", S("b")), ("push", S("?")), S("!")]))][v]
    read = [('(PEEK ~ "b?")', ("seq", "0", [("peek",), S("b?")])),
            ('(POP ~ "b?")', ("seq", "0", [("pop",), S("b?")])),
            ('(PEEK_ALL ~ "b?")', ("seq", "0", [("peekall",), S("b?")]))][v]
    out = []
    for k in range(n):
        if k == p:
            out.append(fail)
        elif k == q:
            out.append(read)
        elif k == r:
            out.append(('"ab?"', S("ab?")))
        else:
            out.append((f'"z{k}"', S(f"z{k}")))
    return out


def stack_pop_push_derived():
    lines = []
    fam = {}
    for cfg in STP_CONFIGS:
        name, alts = stp_name(cfg), stp_alts(cfg)
        fam[name] = cfg[0]
        lines.append(f'{name} = {{ PUSH("a") ~ (' + " | ".join(a for a, _ in alts) + ") }")
        for j, (a, _) in enumerate(alts):
            lines.append(f'{name}_p{j} = {{ PUSH("a") ~ {a} }}')
    STACK_FAMILIES["stp"] = fam
    return [{"gid": "stp", "text": "\n".join(lines) + "\n", "designed": "stack"}]


def stack_pop_push_raw():
    rules = [ws_rule()]
    fam = {}
    for cfg in STP_RAW_CONFIGS:
        name, alts = stp_name(cfg), stp_alts(cfg)
        fam[name] = cfg[0]
        rules.append(rule(name, ("seq", "0", [("push", S("a")), ("choice", [nd for _, nd in alts])])))
        for j, (_, nd) in enumerate(alts):
            rules.append(rule(f"{name}_p{j}", ("seq", "0", [("push", S("a")), nd])))
    STACK_FAMILIES["stpr"] = fam
    return [dict(gid="stpr", rules=rules, skipped=WS_SKIP, designed="stack")]


def counted_derived():
    """Counted repetitions with distinguishable elements, once as the optimizer rewrites them (default options) and
    once under `#[pest_optimizer = false]` (the generator then emits RepExact / RepMin / RepMax / RepMinMax, i.e.
    `RepeatMinMax` / `RepeatMin<_, MIN>`); stack-reading alternatives with the stack-building prefix in every
    alternative-as-a-rule (C17)."""
    return [{"gid": "cnto", "text": CNT_TEXT, "designed": "counted"},
            {"gid": "cntr", "text": CNT_TEXT, "designed": "counted", "attrs": "#[pest_optimizer = false]"},
            {"gid": "stk", "text": STK_TEXT, "designed": "stack"},
            {"gid": "stkr", "text": STK_TEXT, "designed": "stack", "attrs": "#[pest_optimizer = false]"}]


UNI = ["LETTER", "NUMBER", "UPPERCASE_LETTER", "LOWERCASE_LETTER", "HAN", "PUNCTUATION", "ALPHABETIC", "WHITE_SPACE"]


def leaf_derived():
    lines = [f"u_{p.lower()} = {{ {p} }}" for p in UNI]
    lines += ['l_any = { ANY }', 'l_digit = { ASCII_DIGIT }', 'l_hex = { ASCII_HEX_DIGIT }', 'l_alnum = { ASCII_ALPHANUMERIC }',
              'l_newline = { NEWLINE }', 'l_insens = { ^"aBé" }', "l_range = { 'a'..'é' }",
              'l_until = @{ (!("ab" | "c") ~ ANY)* }',
              'k_words = { (u_letter | u_number | u_han | l_newline)* }']
    return [{"gid": "ld", "text": "\n".join(lines) + "\n", "designed": "leaf", "uni": True}]


# ---------------------------------------------------------------------------------------------
# C15: hand-written recursive grammars (wide levels, empty children, deep right spines)

def traversal_grammars():
    gs = []

    def add(name, text):
        gs.append({"gid": name, "text": text})
    add("tv_wide", r'''
w0 = { w1* }
w1 = { "a" | "(" ~ w0 ~ ")" | w2 }
w2 = { "b"+ ~ w3? }
w3 = { "c" ~ w3? }
w4 = ${ w1 ~ (" " ~ w1)* }
w5 = !{ w1+ }
''')
    add("tv_spine", r'''
s0 = { "a" ~ s0 | "b" }
s1 = { s2 ~ ("+" ~ s2)* }
s2 = { "n" | "(" ~ s1 ~ ")" | s3 }
s3 = { "" }
s4 = { s3 ~ s3 ~ s0? ~ s3 }
s5 = @{ s0 }
WHITESPACE = _{ " " }
''')
    add("tv_empty", r'''
e0 = { e1 ~ e2 ~ e1 }
e1 = { "a"? }
e2 = { e1 ~ e3 }
e3 = { &"b" ~ e1 | "c"* }
e4 = { (e3 ~ "b")* }
e5 = ${ e0 ~ e4 }
WHITESPACE = { " " }
''')
    add("tv_tok", r'''
t0 = { t1 ~ t2* }
t1 = { "a" ~ t1? }
t2 = { "b" | "(" ~ t0 ~ ")" }
t3 = !{ t0 ~ t0 }
t4 = ${ t1 ~ t3 }
WHITESPACE = { " " }
COMMENT = ${ "#" ~ t1? }
''')
    add("tv_null", r'''
file = { SOI ~ line* ~ EOI }
line = { word ~ NEWLINE }
word = { ('a'..'z')+ }
outer = { inner ~ "!"? }
inner = { wordz }
wordz = { ('a'..'z')* }
n0 = { n1? ~ n2 }
n1 = { "a" }
n2 = { n3* }
n3 = { "b" }
n4 = { &n1 ~ n5 | n5 }
n5 = { "" }
n6 = !{ n5 ~ n5 ~ EOI }
n7 = ${ n5 ~ n2 }
n8 = { (n5 ~ "c")* ~ n5 }
n9 = { n5 ~ (n1 | n2) ~ n8? }
n10 = { (!n1 ~ n5)? ~ n2 }
n11 = { n5 ~ n5 ~ PUSH(n2) ~ n5 }
''')
    return gs


def build(outdir, derived):
    env = dict(corpus.ENV, **build_env(derived))
    if TARGET_DIR:
        env["CARGO_TARGET_DIR"] = TARGET_DIR
    p = subprocess.run(["cargo", "build", "--offline", "-q"], cwd=outdir, env=env, capture_output=True, text=True)
    return p.returncode, p.stderr
