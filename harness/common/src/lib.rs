//! Shared runner code of the correspondence harness: runs one case of the line protocol against
//! the real pest-typed runtime (and pest itself as an oracle) and prints canonical observables.
use pest_typed::{
    iterators::{Pairs, ThinToken},
    tracker::{SpecialError, Tracker},
    AsInput, Input, ParsableTypedNode, Position, RuleType, Span, Stack,
};
use std::fmt::Write as _;

pub fn hex(s: &str) -> String {
    if s.is_empty() {
        return "-".into();
    }
    s.bytes().map(|b| format!("{:02x}", b)).collect()
}
pub fn unhex(s: &str) -> String {
    if s == "-" {
        return String::new();
    }
    let b: Vec<u8> = (0..s.len()).step_by(2).map(|i| u8::from_str_radix(&s[i..i + 2], 16).unwrap()).collect();
    String::from_utf8(b).unwrap()
}

pub fn show_thin<R: RuleType>(t: &ThinToken<R>, out: &mut String) {
    let _ = write!(out, "({:?} {} {}", t.rule, t.start, t.end);
    for c in &t.children {
        out.push(' ');
        show_thin(c, out);
    }
    out.push(')');
}
pub fn show_tokens<'i, R: RuleType, N: Pairs<'i, R>>(n: &N) -> String {
    let mut out = String::from("[");
    for (k, t) in n.self_or_children().iter().enumerate() {
        if k > 0 {
            out.push(' ');
        }
        show_thin(&t.to_thin(), &mut out);
    }
    out.push(']');
    out
}
pub fn show_stack(stack: &Stack<Span<'_>>) -> String {
    let v: Vec<String> = stack[0..stack.len()].iter().map(|s| format!("{}:{}", s.start(), s.end())).collect();
    format!("[{}]", v.join(","))
}
pub fn show_tracker<'i, R: RuleType>(tracker: Tracker<'i, R>) -> String {
    let (pos, attempts) = tracker.finish();
    let mut parts = vec![];
    for (upper, (positives, negatives, specials)) in attempts {
        let names = |v: &Vec<R>| v.iter().map(|r| format!("{:?}", r)).collect::<Vec<_>>().join(",");
        let sp: Vec<String> = specials
            .iter()
            .map(|s| match s {
                SpecialError::SliceOutOfBound(a, None) => format!("slice({}..)", a),
                SpecialError::SliceOutOfBound(a, Some(b)) => format!("slice({}..{})", a, b),
                SpecialError::RepeatTooManyTimes => "toomany".to_string(),
                SpecialError::EmptyStack => "empty".to_string(),
            })
            .collect();
        parts.push(format!(
            "{}:{}/{}/{}",
            upper.map_or("-".to_string(), |r| format!("{:?}", r)),
            names(&positives),
            names(&negatives),
            sp.join(",")
        ));
    }
    format!("{}|{}", pos.pos(), parts.join(";"))
}

/// Observables of the rendered error report of a failing case (C10): the same entry is run a second
/// time on a fresh stack and tracker (runs are deterministic; `show_tracker` consumed the first
/// tracker), then `Tracker::collect()` — what `try_parse` / `try_check` return to the user.
/// `msg` = hex of the `CustomError` message, `lc` = `line:col` of the error, `disp` = hex of
/// `format!("{}", err)`; each is `panic` if computing it panics.
fn fail_report<'i, I: Input<'i>, R: RuleType, N: ParsableTypedNode<'i, R> + Pairs<'i, R> + core::fmt::Debug>(
    entry: &str,
    input: I,
) -> String {
    use std::panic::{catch_unwind, AssertUnwindSafe};
    let mut stack = Stack::new();
    let mut tracker = Tracker::<'i, R>::new(input);
    let failed = match entry {
        "parse_partial" => N::try_parse_partial_with(input, &mut stack, &mut tracker).is_none(),
        "check_partial" => N::try_check_partial_with(input, &mut stack, &mut tracker).is_none(),
        "parse" => N::try_parse_with(input, &mut stack, &mut tracker).is_none(),
        "check" => !N::try_check_with(input, &mut stack, &mut tracker),
        _ => false,
    };
    if !failed {
        return "\tmsg=nondet\tlc=nondet\tdisp=nondet".to_string();
    }
    match catch_unwind(AssertUnwindSafe(move || tracker.collect())) {
        Err(_) => "\tmsg=panic\tlc=panic\tdisp=panic".to_string(),
        Ok(err) => {
            let msg = hex(&err.variant.message());
            let lc = match &err.line_col {
                pest_typed::error::LineColLocation::Pos((l, c)) => format!("{}:{}", l, c),
                pest_typed::error::LineColLocation::Span((l, c), (l2, c2)) => format!("{}:{}-{}:{}", l, c, l2, c2),
            };
            let disp = catch_unwind(AssertUnwindSafe(|| format!("{}", err))).map(|s| hex(&s)).unwrap_or_else(|_| "panic".to_string());
            format!("\tmsg={}\tlc={}\tdisp={}", msg, lc, disp)
        }
    }
}

fn run_with<'i, I: Input<'i>, R: RuleType, N: ParsableTypedNode<'i, R> + Pairs<'i, R> + core::fmt::Debug>(
    entry: &str,
    input: I,
) -> String {
    let mut stack = Stack::new();
    let mut tracker = Tracker::<'i, R>::new(input);
    match entry {
        "parse_partial" => match N::try_parse_partial_with(input, &mut stack, &mut tracker) {
            Some((next, node)) => format!(
                "v=ok\tend={}\tstk={}\ttrk={}\ttok={}\tdbg={}",
                next.byte_offset(),
                show_stack(&stack),
                show_tracker(tracker),
                show_tokens::<R, N>(&node),
                hex(&format!("{:?}", node))
            ),
            None => format!("v=fail\tstk={}\ttrk={}{}", show_stack(&stack), show_tracker(tracker), fail_report::<I, R, N>(entry, input)),
        },
        "check_partial" => match N::try_check_partial_with(input, &mut stack, &mut tracker) {
            Some(next) => format!("v=ok\tend={}\tstk={}\ttrk={}", next.byte_offset(), show_stack(&stack), show_tracker(tracker)),
            None => format!("v=fail\tstk={}\ttrk={}{}", show_stack(&stack), show_tracker(tracker), fail_report::<I, R, N>(entry, input)),
        },
        "parse" => match N::try_parse_with(input, &mut stack, &mut tracker) {
            Some(node) => format!(
                "v=ok\tstk={}\ttrk={}\ttok={}\tdbg={}",
                show_stack(&stack),
                show_tracker(tracker),
                show_tokens::<R, N>(&node),
                hex(&format!("{:?}", node))
            ),
            None => format!("v=fail\tstk={}\ttrk={}{}", show_stack(&stack), show_tracker(tracker), fail_report::<I, R, N>(entry, input)),
        },
        "check" => match N::try_check_with(input, &mut stack, &mut tracker) {
            true => format!("v=ok\tstk={}\ttrk={}", show_stack(&stack), show_tracker(tracker)),
            false => format!("v=fail\tstk={}\ttrk={}{}", show_stack(&stack), show_tracker(tracker), fail_report::<I, R, N>(entry, input)),
        },
        _ => "v=badentry".to_string(),
    }
}

/// Run one case against a pest-typed rule struct.
/// The PUBLIC entry points of `ParsableTypedNode` (`try_parse`, `try_check`, `try_parse_partial`,
/// `try_check_partial`: they create their own stack and tracker) on the input object as the user passes it:
/// `api=ok[:<end>:<hex of {:?}>]` or `api=fail:<hex of the error message>`.
fn api_with<'i, A: AsInput<'i>, R: RuleType, N: ParsableTypedNode<'i, R> + Pairs<'i, R> + core::fmt::Debug>(
    entry: &str,
    given: A,
) -> String {
    let err = |e: Box<pest_typed::error::Error<R>>| format!("fail:{}", hex(&e.variant.message()));
    match entry {
        "parse_partial" => match N::try_parse_partial(given) {
            Ok((next, node)) => format!("ok:{}:{}", next.byte_offset(), hex(&format!("{:?}", node))),
            Err(e) => err(e),
        },
        "check_partial" => match N::try_check_partial(given) {
            Ok(next) => format!("ok:{}", next.byte_offset()),
            Err(e) => err(e),
        },
        "parse" => match N::try_parse(given) {
            Ok(node) => format!("ok::{}", hex(&format!("{:?}", node))),
            Err(e) => err(e),
        },
        "check" => match N::try_check(given) {
            Ok(()) => "ok".to_string(),
            Err(e) => err(e),
        },
        _ => "badentry".to_string(),
    }
}

pub fn run_typed<'i, R: RuleType, N: ParsableTypedNode<'i, R> + Pairs<'i, R> + core::fmt::Debug>(
    entry: &str,
    form: &str,
    a: usize,
    b: usize,
    input: &'i str,
) -> String {
    match form {
        "str" => format!("{}\tapi={}", run_with::<_, R, N>(entry, input.as_input()), api_with::<_, R, N>(entry, input)),
        "pos" => match Position::new(input, a) {
            Some(p) => format!("{}\tapi={}", run_with::<_, R, N>(entry, p.as_input()), api_with::<_, R, N>(entry, p)),
            None => "v=badpos".into(),
        },
        "span" => match Span::new(input, a, b) {
            Some(s) => format!("{}\tapi={}", run_with::<_, R, N>(entry, s.as_input()), api_with::<_, R, N>(entry, s)),
            None => "v=badspan".into(),
        },
        _ => "v=badform".into(),
    }
}

/// C19, the counted repetitions as skip types: a DIRECT call of `<N as NeverFailedTypedNode>::parse_with` /
/// `check_with` (no tracker parameter: the implementations create their own) after the prefix node `P` has been run
/// through `try_parse_partial_with` on a fresh stack and tracker, so that the call starts at a cursor inside the
/// input with a possibly non-empty stack.  Entries `nf_parse`, `nf_check`, `nf_default`.  `trk=` is the CALLER's
/// tracker after the prefix (the call cannot touch it), `pre=` the offset the call started at.
fn nf_with<'i, I: Input<'i>, R: RuleType, P: pest_typed::TypedNode<'i, R>, N: pest_typed::NeverFailedTypedNode<'i, R>>(
    entry: &str,
    input: I,
) -> String {
    if entry == "nf_default" {
        return format!("v=ok\tdbg={}", hex(&format!("{:?}", N::default())));
    }
    let mut stack = Stack::new();
    let mut tracker = Tracker::<'i, R>::new(input);
    let cur = match P::try_parse_partial_with(input, &mut stack, &mut tracker) {
        Some((next, _)) => next,
        None => return "v=prefail".to_string(),
    };
    match entry {
        "nf_parse" => {
            let (next, node) = N::parse_with(cur, &mut stack);
            format!(
                "v=ok\tpre={}\tend={}\tstk={}\ttrk={}\tdbg={}",
                cur.byte_offset(),
                next.byte_offset(),
                show_stack(&stack),
                show_tracker(tracker),
                hex(&format!("{:?}", node))
            )
        }
        "nf_check" => {
            let next = N::check_with(cur, &mut stack);
            format!("v=ok\tpre={}\tend={}\tstk={}\ttrk={}", cur.byte_offset(), next.byte_offset(), show_stack(&stack), show_tracker(tracker))
        }
        _ => "v=badentry".to_string(),
    }
}

pub fn run_nf<'i, R: RuleType, P: pest_typed::TypedNode<'i, R>, N: pest_typed::NeverFailedTypedNode<'i, R>>(
    entry: &str,
    form: &str,
    a: usize,
    b: usize,
    input: &'i str,
) -> String {
    match form {
        "str" => nf_with::<_, R, P, N>(entry, input.as_input()),
        "pos" => match Position::new(input, a) {
            Some(p) => nf_with::<_, R, P, N>(entry, p.as_input()),
            None => "v=badpos".into(),
        },
        "span" => match Span::new(input, a, b) {
            Some(s) => nf_with::<_, R, P, N>(entry, s.as_input()),
            None => "v=badspan".into(),
        },
        _ => "v=badform".into(),
    }
}

fn show_pest_pair<R: pest::RuleType>(p: pest::iterators::Pair<'_, R>, out: &mut String) {
    let sp = p.as_span();
    let _ = write!(out, "({:?} {} {}", p.as_rule(), sp.start(), sp.end());
    for c in p.into_inner() {
        out.push(' ');
        show_pest_pair(c, out);
    }
    out.push(')');
}

/// Run pest's own generated parser: `ok:<end>:<tokens>`, `fail`, or `panic`.
pub fn run_pest<R: pest::RuleType, P: pest::Parser<R>>(rule: R, input: &str) -> String {
    let input2 = input.to_string();
    let r = std::panic::catch_unwind(std::panic::AssertUnwindSafe(move || match P::parse(rule, &input2) {
        Ok(pairs) => {
            let mut out = String::from("[");
            let mut end = 0usize;
            for (k, p) in pairs.enumerate() {
                if k == 0 {
                    end = p.as_span().end();
                } else {
                    out.push(' ');
                }
                show_pest_pair(p, &mut out);
            }
            out.push(']');
            format!("ok:{}:{}", end, out)
        }
        Err(_) => "fail".to_string(),
    }));
    r.unwrap_or_else(|_| "panic".to_string())
}

pub type CaseFn = fn(&str, &str, usize, usize, &str) -> String;

/// The stdin loop of a corpus binary: `<caseno> <gid> <rule> <entry> <form> <a> <b> <hex>`.
/// Watchdog: a case that does not answer within 6 s is printed as `v=timeout` and the process exits with code 3
/// (checks/suites.py `run_bins` retries it once in a fresh process before it counts as a timeout).
pub fn serve(dispatch: fn(&str, &str) -> Option<(CaseFn, Option<fn(&str) -> String>)>) {
    use std::io::BufRead;
    std::panic::set_hook(Box::new(|_| {}));
    let (tx, rx) = std::sync::mpsc::channel::<(String, String)>();
    let (done_tx, done_rx) = std::sync::mpsc::channel::<()>();
    let worker = std::thread::Builder::new()
        .stack_size(512 << 20)
        .spawn(move || {
            let stdin = std::io::stdin();
            for line in stdin.lock().lines() {
                let line = line.unwrap();
                let f: Vec<&str> = line.split(' ').collect();
                if f.len() != 8 {
                    continue;
                }
                let (no, gid, rule, entry, form) = (f[0], f[1], f[2], f[3], f[4]);
                let a: usize = f[5].parse().unwrap_or(0);
                let b: usize = f[6].parse().unwrap_or(0);
                let input = unhex(f[7]);
                let _ = tx.send((no.to_string(), "START".to_string()));
                let res = match dispatch(gid, rule) {
                    None => "v=nodispatch".to_string(),
                    Some((tf, pf)) => {
                        let input2 = input.clone();
                        let (entry2, form2) = (entry.to_string(), form.to_string());
                        let typed = std::panic::catch_unwind(move || tf(&entry2, &form2, a, b, &input2))
                            .unwrap_or_else(|_| "v=panic".to_string());
                        match (pf, form, entry) {
                            (Some(pf), "str", "parse_partial") => format!("{}\tpest={}", typed, pf(&input)),
                            _ => typed,
                        }
                    }
                };
                let _ = tx.send((no.to_string(), res));
            }
            let _ = done_tx.send(());
        })
        .unwrap();
    let out = std::io::stdout();
    loop {
        match rx.recv_timeout(std::time::Duration::from_millis(200)) {
            Ok((no, msg)) => {
                if msg == "START" {
                    // wait for the result of this case with a watchdog
                    match rx.recv_timeout(std::time::Duration::from_secs(6)) {
                        Ok((no2, res)) => {
                            use std::io::Write;
                            let _ = writeln!(out.lock(), "{} {}", no2, res);
                        }
                        Err(_) => {
                            use std::io::Write;
                            let _ = writeln!(out.lock(), "{} v=timeout", no);
                            let _ = out.lock().flush();
                            std::process::exit(3);
                        }
                    }
                }
            }
            Err(std::sync::mpsc::RecvTimeoutError::Timeout) => {
                if done_rx.try_recv().is_ok() {
                    break;
                }
            }
            Err(_) => break,
        }
    }
    let _ = worker.join();
}
