//! front.rs — `consume_rules_with_spans`, `get_node_tag`, `consume_expr`, `unescape` of
//! pest_meta 2.7.14 `src/parser.rs` (lines 259-741), copied VERBATIM because they are private there
//! (only the first `fn` was made `pub`).  They turn the pairs of `pest_meta::parser::parse` into the
//! `ParserRule`s that the (public) real `pest_meta::validator::validate_ast` takes.  The copy is tied to
//! the original twice (checks/c11.py): the messages of `validate_ast(front(pairs))` must equal those of
//! `consume_rules(pairs)` for every grammar, and for accepted grammars the un-spanned AST printed from
//! these rules must equal the one `dump_ast` prints from `consume_rules`' own output.
#![allow(clippy::all, dead_code, unexpected_cfgs)]
use std::char;
use std::iter::Peekable;

use pest::error::{Error, ErrorVariant};
use pest::iterators::{Pair, Pairs};
use pest::pratt_parser::{Assoc, Op, PrattParser};
use pest::Position;

use pest_meta::ast::RuleType;
use pest_meta::parser::{ParserExpr, ParserNode, ParserRule, Rule};

pub
fn consume_rules_with_spans(
    pairs: Pairs<'_, Rule>,
) -> Result<Vec<ParserRule<'_>>, Vec<Error<Rule>>> {
    let pratt = PrattParser::new()
        .op(Op::infix(Rule::choice_operator, Assoc::Left))
        .op(Op::infix(Rule::sequence_operator, Assoc::Left));

    pairs
        .filter(|pair| pair.as_rule() == Rule::grammar_rule)
        .filter(|pair| {
            // To ignore `grammar_rule > line_doc` pairs
            let mut pairs = pair.clone().into_inner();
            let pair = pairs.next().unwrap();

            pair.as_rule() != Rule::line_doc
        })
        .map(|pair| {
            let mut pairs = pair.into_inner().peekable();

            let span = pairs.next().unwrap().as_span();
            let name = span.as_str().to_owned();

            pairs.next().unwrap(); // assignment_operator

            let ty = if pairs.peek().unwrap().as_rule() != Rule::opening_brace {
                match pairs.next().unwrap().as_rule() {
                    Rule::silent_modifier => RuleType::Silent,
                    Rule::atomic_modifier => RuleType::Atomic,
                    Rule::compound_atomic_modifier => RuleType::CompoundAtomic,
                    Rule::non_atomic_modifier => RuleType::NonAtomic,
                    _ => unreachable!(),
                }
            } else {
                RuleType::Normal
            };

            pairs.next().unwrap(); // opening_brace

            // skip initial infix operators
            let mut inner_nodes = pairs.next().unwrap().into_inner().peekable();
            if inner_nodes.peek().unwrap().as_rule() == Rule::choice_operator {
                inner_nodes.next().unwrap();
            }

            let node = consume_expr(inner_nodes, &pratt)?;

            Ok(ParserRule {
                name,
                span,
                ty,
                node,
            })
        })
        .collect()
}

fn get_node_tag<'i>(
    pairs: &mut Peekable<Pairs<'i, Rule>>,
) -> (Pair<'i, Rule>, Option<(String, Position<'i>)>) {
    let pair_or_tag = pairs.next().unwrap();
    if let Some(next_pair) = pairs.peek() {
        if next_pair.as_rule() == Rule::assignment_operator {
            pairs.next().unwrap();
            let pair = pairs.next().unwrap();
            (
                pair,
                Some((
                    pair_or_tag.as_str()[1..].to_string(),
                    pair_or_tag.as_span().start_pos(),
                )),
            )
        } else {
            (pair_or_tag, None)
        }
    } else {
        (pair_or_tag, None)
    }
}

fn consume_expr<'i>(
    pairs: Peekable<Pairs<'i, Rule>>,
    pratt: &PrattParser<Rule>,
) -> Result<ParserNode<'i>, Vec<Error<Rule>>> {
    fn unaries<'i>(
        mut pairs: Peekable<Pairs<'i, Rule>>,
        pratt: &PrattParser<Rule>,
    ) -> Result<ParserNode<'i>, Vec<Error<Rule>>> {
        #[cfg(feature = "grammar-extras")]
        let (pair, tag_start) = get_node_tag(&mut pairs);
        #[cfg(not(feature = "grammar-extras"))]
        let (pair, _tag_start) = get_node_tag(&mut pairs);

        let node = match pair.as_rule() {
            Rule::opening_paren => {
                let node = unaries(pairs, pratt)?;
                let end = node.span.end_pos();

                ParserNode {
                    expr: node.expr,
                    span: pair.as_span().start_pos().span(&end),
                }
            }
            Rule::positive_predicate_operator => {
                let node = unaries(pairs, pratt)?;
                let end = node.span.end_pos();

                ParserNode {
                    expr: ParserExpr::PosPred(Box::new(node)),
                    span: pair.as_span().start_pos().span(&end),
                }
            }
            Rule::negative_predicate_operator => {
                let node = unaries(pairs, pratt)?;
                let end = node.span.end_pos();

                ParserNode {
                    expr: ParserExpr::NegPred(Box::new(node)),
                    span: pair.as_span().start_pos().span(&end),
                }
            }
            other_rule => {
                let node = match other_rule {
                    Rule::expression => consume_expr(pair.into_inner().peekable(), pratt)?,
                    Rule::_push => {
                        let start = pair.clone().as_span().start_pos();
                        let mut pairs = pair.into_inner();
                        pairs.next().unwrap(); // opening_paren
                        let pair = pairs.next().unwrap();

                        let node = consume_expr(pair.into_inner().peekable(), pratt)?;
                        let end = node.span.end_pos();

                        ParserNode {
                            expr: ParserExpr::Push(Box::new(node)),
                            span: start.span(&end),
                        }
                    }
                    Rule::peek_slice => {
                        let mut pairs = pair.clone().into_inner();
                        pairs.next().unwrap(); // opening_brack
                        let pair_start = pairs.next().unwrap(); // .. or integer
                        let start: i32 = match pair_start.as_rule() {
                            Rule::range_operator => 0,
                            Rule::integer => {
                                pairs.next().unwrap(); // ..
                                pair_start.as_str().parse().unwrap()
                            }
                            _ => unreachable!("peek start"),
                        };
                        let pair_end = pairs.next().unwrap(); // integer or }
                        let end: Option<i32> = match pair_end.as_rule() {
                            Rule::closing_brack => None,
                            Rule::integer => {
                                pairs.next().unwrap(); // }
                                Some(pair_end.as_str().parse().unwrap())
                            }
                            _ => unreachable!("peek end"),
                        };
                        ParserNode {
                            expr: ParserExpr::PeekSlice(start, end),
                            span: pair.as_span(),
                        }
                    }
                    Rule::identifier => ParserNode {
                        expr: ParserExpr::Ident(pair.as_str().to_owned()),
                        span: pair.clone().as_span(),
                    },
                    Rule::string => {
                        let string = unescape(pair.as_str()).expect("incorrect string literal");
                        ParserNode {
                            expr: ParserExpr::Str(string[1..string.len() - 1].to_owned()),
                            span: pair.clone().as_span(),
                        }
                    }
                    Rule::insensitive_string => {
                        let string = unescape(pair.as_str()).expect("incorrect string literal");
                        ParserNode {
                            expr: ParserExpr::Insens(string[2..string.len() - 1].to_owned()),
                            span: pair.clone().as_span(),
                        }
                    }
                    Rule::range => {
                        let mut pairs = pair.into_inner();
                        let pair = pairs.next().unwrap();
                        let start = unescape(pair.as_str()).expect("incorrect char literal");
                        let start_pos = pair.clone().as_span().start_pos();
                        pairs.next();
                        let pair = pairs.next().unwrap();
                        let end = unescape(pair.as_str()).expect("incorrect char literal");
                        let end_pos = pair.clone().as_span().end_pos();

                        ParserNode {
                            expr: ParserExpr::Range(
                                start[1..start.len() - 1].to_owned(),
                                end[1..end.len() - 1].to_owned(),
                            ),
                            span: start_pos.span(&end_pos),
                        }
                    }
                    x => unreachable!("other rule: {:?}", x),
                };

                pairs.try_fold(node, |node: ParserNode<'i>, pair: Pair<'i, Rule>| {
                    let node = match pair.as_rule() {
                        Rule::optional_operator => {
                            let start = node.span.start_pos();
                            ParserNode {
                                expr: ParserExpr::Opt(Box::new(node)),
                                span: start.span(&pair.as_span().end_pos()),
                            }
                        }
                        Rule::repeat_operator => {
                            let start = node.span.start_pos();
                            ParserNode {
                                expr: ParserExpr::Rep(Box::new(node)),
                                span: start.span(&pair.as_span().end_pos()),
                            }
                        }
                        Rule::repeat_once_operator => {
                            let start = node.span.start_pos();
                            ParserNode {
                                expr: ParserExpr::RepOnce(Box::new(node)),
                                span: start.span(&pair.as_span().end_pos()),
                            }
                        }
                        Rule::repeat_exact => {
                            let mut inner = pair.clone().into_inner();

                            inner.next().unwrap(); // opening_brace

                            let number = inner.next().unwrap();
                            let num = if let Ok(num) = number.as_str().parse::<u32>() {
                                num
                            } else {
                                return Err(vec![Error::new_from_span(
                                    ErrorVariant::CustomError {
                                        message: "number cannot overflow u32".to_owned(),
                                    },
                                    number.as_span(),
                                )]);
                            };

                            if num == 0 {
                                let error: Error<Rule> = Error::new_from_span(
                                    ErrorVariant::CustomError {
                                        message: "cannot repeat 0 times".to_owned(),
                                    },
                                    number.as_span(),
                                );

                                return Err(vec![error]);
                            }

                            let start = node.span.start_pos();
                            ParserNode {
                                expr: ParserExpr::RepExact(Box::new(node), num),
                                span: start.span(&pair.as_span().end_pos()),
                            }
                        }
                        Rule::repeat_min => {
                            let mut inner = pair.clone().into_inner();

                            inner.next().unwrap(); // opening_brace

                            let min_number = inner.next().unwrap();
                            let min = if let Ok(min) = min_number.as_str().parse::<u32>() {
                                min
                            } else {
                                return Err(vec![Error::new_from_span(
                                    ErrorVariant::CustomError {
                                        message: "number cannot overflow u32".to_owned(),
                                    },
                                    min_number.as_span(),
                                )]);
                            };

                            let start = node.span.start_pos();
                            ParserNode {
                                expr: ParserExpr::RepMin(Box::new(node), min),
                                span: start.span(&pair.as_span().end_pos()),
                            }
                        }
                        Rule::repeat_max => {
                            let mut inner = pair.clone().into_inner();

                            inner.next().unwrap(); // opening_brace
                            inner.next().unwrap(); // comma

                            let max_number = inner.next().unwrap();
                            let max = if let Ok(max) = max_number.as_str().parse::<u32>() {
                                max
                            } else {
                                return Err(vec![Error::new_from_span(
                                    ErrorVariant::CustomError {
                                        message: "number cannot overflow u32".to_owned(),
                                    },
                                    max_number.as_span(),
                                )]);
                            };

                            if max == 0 {
                                let error: Error<Rule> = Error::new_from_span(
                                    ErrorVariant::CustomError {
                                        message: "cannot repeat 0 times".to_owned(),
                                    },
                                    max_number.as_span(),
                                );

                                return Err(vec![error]);
                            }

                            let start = node.span.start_pos();
                            ParserNode {
                                expr: ParserExpr::RepMax(Box::new(node), max),
                                span: start.span(&pair.as_span().end_pos()),
                            }
                        }
                        Rule::repeat_min_max => {
                            let mut inner = pair.clone().into_inner();

                            inner.next().unwrap(); // opening_brace

                            let min_number = inner.next().unwrap();
                            let min = if let Ok(min) = min_number.as_str().parse::<u32>() {
                                min
                            } else {
                                return Err(vec![Error::new_from_span(
                                    ErrorVariant::CustomError {
                                        message: "number cannot overflow u32".to_owned(),
                                    },
                                    min_number.as_span(),
                                )]);
                            };

                            inner.next().unwrap(); // comma

                            let max_number = inner.next().unwrap();
                            let max = if let Ok(max) = max_number.as_str().parse::<u32>() {
                                max
                            } else {
                                return Err(vec![Error::new_from_span(
                                    ErrorVariant::CustomError {
                                        message: "number cannot overflow u32".to_owned(),
                                    },
                                    max_number.as_span(),
                                )]);
                            };

                            if max == 0 {
                                let error: Error<Rule> = Error::new_from_span(
                                    ErrorVariant::CustomError {
                                        message: "cannot repeat 0 times".to_owned(),
                                    },
                                    max_number.as_span(),
                                );

                                return Err(vec![error]);
                            }

                            let start = node.span.start_pos();
                            ParserNode {
                                expr: ParserExpr::RepMinMax(Box::new(node), min, max),
                                span: start.span(&pair.as_span().end_pos()),
                            }
                        }
                        Rule::closing_paren => {
                            let start = node.span.start_pos();

                            ParserNode {
                                expr: node.expr,
                                span: start.span(&pair.as_span().end_pos()),
                            }
                        }
                        rule => unreachable!("node: {:?}", rule),
                    };

                    Ok(node)
                })?
            }
        };
        #[cfg(feature = "grammar-extras")]
        if let Some((tag, start)) = tag_start {
            let span = start.span(&node.span.end_pos());
            Ok(ParserNode {
                expr: ParserExpr::NodeTag(Box::new(node), tag),
                span,
            })
        } else {
            Ok(node)
        }
        #[cfg(not(feature = "grammar-extras"))]
        Ok(node)
    }

    let term = |pair: Pair<'i, Rule>| unaries(pair.into_inner().peekable(), pratt);
    let infix = |lhs: Result<ParserNode<'i>, Vec<Error<Rule>>>,
                 op: Pair<'i, Rule>,
                 rhs: Result<ParserNode<'i>, Vec<Error<Rule>>>| match op.as_rule() {
        Rule::sequence_operator => {
            let lhs = lhs?;
            let rhs = rhs?;

            let start = lhs.span.start_pos();
            let end = rhs.span.end_pos();

            Ok(ParserNode {
                expr: ParserExpr::Seq(Box::new(lhs), Box::new(rhs)),
                span: start.span(&end),
            })
        }
        Rule::choice_operator => {
            let lhs = lhs?;
            let rhs = rhs?;

            let start = lhs.span.start_pos();
            let end = rhs.span.end_pos();

            Ok(ParserNode {
                expr: ParserExpr::Choice(Box::new(lhs), Box::new(rhs)),
                span: start.span(&end),
            })
        }
        _ => unreachable!("infix"),
    };

    pratt.map_primary(term).map_infix(infix).parse(pairs)
}

fn unescape(string: &str) -> Option<String> {
    let mut result = String::new();
    let mut chars = string.chars();

    loop {
        match chars.next() {
            Some('\\') => match chars.next()? {
                '"' => result.push('"'),
                '\\' => result.push('\\'),
                'r' => result.push('\r'),
                'n' => result.push('\n'),
                't' => result.push('\t'),
                '0' => result.push('\0'),
                '\'' => result.push('\''),
                'x' => {
                    let string: String = chars.clone().take(2).collect();

                    if string.len() != 2 {
                        return None;
                    }

                    for _ in 0..string.len() {
                        chars.next()?;
                    }

                    let value = u8::from_str_radix(&string, 16).ok()?;

                    result.push(char::from(value));
                }
                'u' => {
                    if chars.next()? != '{' {
                        return None;
                    }

                    let string: String = chars.clone().take_while(|c| *c != '}').collect();

                    if string.len() < 2 || 6 < string.len() {
                        return None;
                    }

                    for _ in 0..string.len() + 1 {
                        chars.next()?;
                    }

                    let value = u32::from_str_radix(&string, 16).ok()?;

                    result.push(char::from_u32(value)?);
                }
                _ => return None,
            },
            Some(c) => result.push(c),
            None => return Some(result),
        };
    }
}
