//! gen_runner (property C11): for every grammar on stdin (`<gid>\t<hex of grammar text, "-" = empty>`)
//! runs (a) pest-typed's generator entry `derive_typed_parser` with default options under
//! `catch_unwind`, and (b) independently every stage of pest_meta's front end, and prints ONE line
//!
//! `<gid>\tderive=<ok|panic>\tparse=<ok|err>\tconsume=<ok|err|na>\tpairs=<ok|err|na>\tfull=<ok|err>\t
//!  vmsg=<hex|->\tpmsg=<hex|->\tdmsg=<hex|->\tntok=<n>` … `\tdopt=<v,v,…|->\tdoptmsg=<hex>`
//!
//! An optional third input column (hex, one derive attribute set per line) asks for the derive verdict under
//! those option sets as well (`dopt`, in order; `derive`/`dopt` values: ok | panic | cerr = the expansion contains
//! `compile_error!`).
//!
//! vmsg: messages of `consume_rules` (which runs `validate_ast`) joined by "\n"; when the grammar does
//! not even parse, the parser's message.  pmsg: messages of `validate_pairs`.  dmsg: the first 400
//! characters of the generator's panic message.  ntok: number of token trees emitted (nested groups included).
//! A trailing `pgen=<ok|panic>` says what pest's own generator (`pest_generator::derive_parser`) does with
//! the same grammar (information only: it tells "pest_meta accepts" apart from "pest_derive accepts").
//!
//! Validator mirror (tie `validator-mirror`): `vfront=<ok|err|na>` says whether the pairs convert to
//! `ParserRule`s (front.rs = pest_meta's private `consume_rules_with_spans`, copied verbatim);
//! `vreal=<hex|->` are the messages of the REAL `pest_meta::validator::validate_ast` on exactly those rules and
//! `vast=<hex>` is the S-expression `(vgrammar (rule <name> <kind> <expr>) ...)` of the same rules (the syntax of
//! `harness/tools/src/bin/dump_ast.rs`, raw expressions) that the Lean mirror `pestValidate` is run on.
mod front;
use quote::quote;
use std::io::{BufRead, Write};
use std::panic::{catch_unwind, AssertUnwindSafe};

fn hex(s: &str) -> String {
    if s.is_empty() {
        return "-".into();
    }
    s.bytes().map(|b| format!("{:02x}", b)).collect()
}
fn unhex(s: &str) -> String {
    if s == "-" {
        return String::new();
    }
    let b: Vec<u8> = (0..s.len() / 2 * 2).step_by(2).map(|i| u8::from_str_radix(&s[i..i + 2], 16).unwrap_or(b'?')).collect();
    String::from_utf8_lossy(&b).into_owned()
}
fn payload(p: Box<dyn std::any::Any + Send>) -> String {
    if let Some(s) = p.downcast_ref::<&str>() {
        s.to_string()
    } else if let Some(s) = p.downcast_ref::<String>() {
        s.clone()
    } else {
        "(non-string panic payload)".to_string()
    }
}
fn msgs(es: &[pest::error::Error<pest_meta::parser::Rule>]) -> String {
    es.iter().map(|e| e.variant.message().to_string()).collect::<Vec<_>>().join("\n")
}

fn cp(s: &str) -> u32 {
    s.chars().next().map_or(0, |c| c as u32)
}
/// The un-spanned expression in dump_ast's syntax.
fn vexpr(e: &pest_meta::parser::ParserExpr) -> String {
    use pest_meta::parser::ParserExpr as E;
    match e {
        E::Str(s) => format!("(str {})", hex(s)),
        E::Insens(s) => format!("(insens {})", hex(s)),
        E::Range(a, b) => format!("(range {} {})", cp(a), cp(b)),
        E::Ident(n) => format!("(ident {})", n),
        E::PeekSlice(a, b) => format!("(peekslice {} {})", a, b.map_or("-".to_string(), |x| x.to_string())),
        E::PosPred(e) => format!("(pos {})", vexpr(&e.expr)),
        E::NegPred(e) => format!("(neg {})", vexpr(&e.expr)),
        E::Seq(a, b) => format!("(seq {} {})", vexpr(&a.expr), vexpr(&b.expr)),
        E::Choice(a, b) => format!("(choice {} {})", vexpr(&a.expr), vexpr(&b.expr)),
        E::Opt(e) => format!("(opt {})", vexpr(&e.expr)),
        E::Rep(e) => format!("(rep {})", vexpr(&e.expr)),
        E::RepOnce(e) => format!("(reponce {})", vexpr(&e.expr)),
        E::RepExact(e, n) => format!("(repexact {} {})", vexpr(&e.expr), n),
        E::RepMin(e, n) => format!("(repmin {} {})", vexpr(&e.expr), n),
        E::RepMax(e, n) => format!("(repmax {} {})", vexpr(&e.expr), n),
        E::RepMinMax(e, n, m) => format!("(repminmax {} {} {})", vexpr(&e.expr), n, m),
        E::Push(e) => format!("(push {})", vexpr(&e.expr)),
        #[allow(unreachable_patterns)]
        _ => "(unsupported)".into(),
    }
}
fn vkind(t: pest_meta::ast::RuleType) -> &'static str {
    use pest_meta::ast::RuleType as T;
    match t {
        T::Normal => "normal",
        T::Silent => "silent",
        T::Atomic => "atomic",
        T::CompoundAtomic => "compound",
        T::NonAtomic => "nonatomic",
    }
}

/// All token trees of the expansion, nested groups included.
fn count(ts: proc_macro2::TokenStream) -> usize {
    ts.into_iter()
        .map(|t| match t {
            proc_macro2::TokenTree::Group(g) => 1 + count(g.stream()),
            _ => 1,
        })
        .sum()
}

/// The text of the first `compile_error!( "…" )` invocation of an expansion, if any.
fn compile_error_of(ts: proc_macro2::TokenStream) -> Option<String> {
    let v: Vec<proc_macro2::TokenTree> = ts.into_iter().collect();
    for (k, t) in v.iter().enumerate() {
        match t {
            proc_macro2::TokenTree::Ident(id) if id == "compile_error" => {
                if let Some(proc_macro2::TokenTree::Punct(p)) = v.get(k + 1) {
                    if p.as_char() == '!' {
                        let msg = match v.get(k + 2) {
                            Some(proc_macro2::TokenTree::Group(g)) => g.stream().to_string(),
                            _ => String::new(),
                        };
                        return Some(msg);
                    }
                }
            }
            proc_macro2::TokenTree::Group(g) => {
                if let Some(m) = compile_error_of(g.stream()) {
                    return Some(m);
                }
            }
            _ => {}
        }
    }
    None
}

/// `derive_typed_parser` on `#[grammar_inline = text] <attrs> struct P;` under `catch_unwind`:
/// ("ok" | "panic" | "cerr" | "badattrs", message, number of token trees).
fn derive_with(text: &str, attrs: &str) -> (&'static str, String, usize) {
    let attrs_ts: proc_macro2::TokenStream = match attrs.parse() {
        Ok(t) => t,
        Err(_) => return ("badattrs", attrs.to_string(), 0),
    };
    let t = text.to_string();
    let d = catch_unwind(AssertUnwindSafe(move || {
        pest_typed_generator::derive_typed_parser(
            quote! {
                #[grammar_inline = #t]
                #attrs_ts
                struct P;
            },
            false,
            false,
        )
    }));
    match d {
        Ok(ts) => match compile_error_of(ts.clone()) {
            Some(m) => ("cerr", m.chars().take(400).collect(), 0),
            None => ("ok", String::new(), count(ts)),
        },
        Err(p) => ("panic", payload(p).chars().take(400).collect::<String>(), 0),
    }
}

fn main() {
    std::panic::set_hook(Box::new(|_| {}));
    let stdin = std::io::stdin();
    let out = std::io::stdout();
    let mut out = out.lock();
    for line in stdin.lock().lines() {
        let line = match line {
            Ok(l) => l,
            Err(_) => break,
        };
        if line.is_empty() {
            continue;
        }
        let mut it = line.split('\t');
        let gid = it.next().unwrap_or("").to_string();
        let text = unhex(it.next().unwrap_or("-"));

        // optional third column: derive attribute sets (one per line), e.g. `#[pest_optimizer = false] #[no_warnings]`
        let optsets: Vec<String> = match it.next() {
            Some(h) if h != "-" && !h.is_empty() => unhex(h).split('\n').map(|x| x.to_string()).collect(),
            _ => vec![],
        };

        // (a) the generator under test, default options.  A refusal is a panic (what the proc macro turns into a
        // compile error) or an expansion that contains `compile_error!` (rustc refuses just the same): `derive=cerr`.
        let (derive, dmsg, ntok) = derive_with(&text, "");
        // (a') the same under every requested non-default option set
        let mut dopt = Vec::new();
        let mut doptmsg = Vec::new();
        for o in &optsets {
            let (v, m, _) = derive_with(&text, o);
            dopt.push(v);
            doptmsg.push(m.chars().take(200).collect::<String>().replace('\n', " / "));
        }

        // (b) pest_meta's front end, stage by stage
        let t = text.clone();
        let staged = catch_unwind(AssertUnwindSafe(|| {
            use pest_meta::parser::{self, Rule};
            match parser::parse(Rule::grammar_rules, &t) {
                Err(e) => ("err", "na", "na", e.renamed_rules(parser::rename_meta_rule).variant.message().to_string(), String::new()),
                Ok(pairs) => {
                    let p2 = pairs.clone();
                    let c = catch_unwind(AssertUnwindSafe(move || parser::consume_rules(p2)));
                    let (cv, cm) = match c {
                        Ok(Ok(_)) => ("ok", String::new()),
                        Ok(Err(es)) => ("err", msgs(&es)),
                        Err(p) => ("err", format!("panic in consume_rules: {}", payload(p))),
                    };
                    let v = catch_unwind(AssertUnwindSafe(move || pest_meta::validator::validate_pairs(pairs).map(|_| ())));
                    let (pv, pm) = match v {
                        Ok(Ok(())) => ("ok", String::new()),
                        Ok(Err(es)) => ("err", msgs(&es)),
                        Err(p) => ("err", format!("panic in validate_pairs: {}", payload(p))),
                    };
                    ("ok", cv, pv, cm, pm)
                }
            }
        }));
        let (parse, consume, pairs_v, vmsg, pmsg) = match staged {
            Ok(t) => t,
            Err(p) => ("err", "na", "na", format!("panic in parse: {}", payload(p)), String::new()),
        };
        // (c) validator mirror: the real validate_ast on the rules built by front.rs, and those rules as an S-expression
        let t = text.clone();
        let (vfront, vreal, vast) = match catch_unwind(AssertUnwindSafe(|| {
            use pest_meta::parser::{self, Rule};
            match parser::parse(Rule::grammar_rules, &t) {
                Err(_) => ("na", String::new(), String::new()),
                Ok(pairs) => match front::consume_rules_with_spans(pairs) {
                    Err(es) => ("err", msgs(&es), String::new()),
                    Ok(rules) => {
                        let es = pest_meta::validator::validate_ast(&rules);
                        let mut s = String::from("(vgrammar");
                        for r in &rules {
                            s.push_str(&format!(" (rule {} {} {})", r.name, vkind(r.ty), vexpr(&r.node.expr)));
                        }
                        s.push(')');
                        ("ok", msgs(&es), s)
                    }
                },
            }
        })) {
            Ok(t) => t,
            Err(p) => ("err", format!("panic in consume_rules: {}", payload(p)), String::new()),
        };
        let t = text.clone();
        let full = match catch_unwind(AssertUnwindSafe(move || pest_meta::parse_and_optimize(&t).is_ok())) {
            Ok(true) => "ok",
            _ => "err",
        };
        let t = text.clone();
        let pgen = match catch_unwind(AssertUnwindSafe(move || {
            pest_generator::derive_parser(
                quote! {
                    #[grammar_inline = #t]
                    struct P;
                },
                false,
            )
            .into_iter()
            .count()
        })) {
            Ok(_) => "ok",
            Err(_) => "panic",
        };
        writeln!(
            out,
            "{}\tderive={}\tparse={}\tconsume={}\tpairs={}\tfull={}\tvmsg={}\tpmsg={}\tdmsg={}\tntok={}\tpgen={}\tvfront={}\tvreal={}\tvast={}\tdopt={}\tdoptmsg={}",
            gid, derive, parse, consume, pairs_v, full, hex(&vmsg), hex(&pmsg), hex(&dmsg), ntok, pgen, vfront, hex(&vreal), hex(&vast),
            if dopt.is_empty() { "-".to_string() } else { dopt.join(",") }, hex(&doptmsg.join("\n"))
        )
        .unwrap();
        out.flush().unwrap();
    }
}
