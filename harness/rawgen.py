#!/usr/bin/env python3
"""T-raw: direct instantiation of the runtime generics (no generator).  A node grammar is a python
structure; this module prints it (a) as Rust type expressions wrapped in `pest_typed::rule!` and
(b) as the S-expression the Lean driver reads into `Model.Node`.

Node terms (tuples):
  ("str", s) ("insens", s) ("range", lo, hi) ("any",) ("soi",) ("eoi",) ("newline",)
  ("skipuntil", [s..]) ("skipchars", n) ("seq", flag, [nodes]) ("choice", [nodes]) ("opt", n)
  ("rep", flag, min, max|None, n) ("atomicrepeat", n) ("pos", n) ("neg", n) ("push", n)
  ("peek",) ("peekall",) ("pop",) ("popall",) ("drop",) ("peekslice", a, b|None)
  ("ref", rulename, flag) ("array", k, n) ("pair", a, b) ("empty",) ("alwaysfail",)
flag in {"0", "1", "INHERITED"}.  Rule: dict(name, atom in {"true","false","INHERITED"},
emit in {"Span","Expression","Both"}, boxed bool, body).  Grammar: dict(gid, rules, skipped).

C19, the counted repetitions as `NeverFailedTypedNode` (skip types):
  * a rule may carry `ignored = dict(k, max|None, elem)`: the `$ignored` argument of its `rule!` is then
    `RepeatMin<Skipped<elem, Skipped<'i>, k>, 0>` / `RepeatMinMax<Skipped<elem, Skipped<'i>, k>, 0, max>` instead of the module's
    `Skipped<'i>` (the trailing skip of the full entries `parse` / `check`);
  * a grammar may carry `nf = [dict(name, k, max|None, pre, elem)]`: runner entries `nf_parse` / `nf_check` call
    `<that type as NeverFailedTypedNode>::parse_with / check_with` DIRECTLY (vh_common::run_nf) after the node `pre` has been
    run on a fresh stack and tracker.  S-expression items `(ignored <rule> <k> <max|-> <elem>)`, `(nf <name> <k> <max|-> <pre> <elem>)`.
"""
import os
from corpus import hexs, HERE, fill, PROFILE


def rust_char(c):
    return "'\\u{%x}'" % ord(c)


class RustPrinter:
    def __init__(self, gid):
        self.gid = gid
        self.wrappers = []

    def wrap_str(self, s):
        name = f"W{len(self.wrappers)}"
        lit = '"' + "".join("\\u{%x}" % ord(c) for c in s) + '"'
        self.wrappers.append(f"#[derive(Clone, Hash, PartialEq, Eq)] pub struct {name}; impl pest_typed::StringWrapper for {name} {{ const CONTENT: &'static str = {lit}; }}")
        return name

    def wrap_strs(self, ss):
        name = f"W{len(self.wrappers)}"
        lits = ", ".join('"' + "".join("\\u{%x}" % ord(c) for c in s) + '"' for s in ss)
        self.wrappers.append(f"#[derive(Clone, Hash, PartialEq, Eq)] pub struct {name}; impl pest_typed::StringArrayWrapper for {name} {{ const CONTENT: &'static [&'static str] = &[{lits}]; }}")
        return name

    def ty(self, n):
        k = n[0]
        P = "pest_typed::predefined_node::"
        if k == "str":
            return f"{P}Str<{self.wrap_str(n[1])}>"
        if k == "insens":
            return f"{P}Insens<'i, {self.wrap_str(n[1])}>"
        if k == "range":
            return f"{P}CharRange<{rust_char(n[1])}, {rust_char(n[2])}>"
        if k == "any":
            return P + "ANY"
        if k == "soi":
            return P + "SOI"
        if k == "eoi":
            return P + "EOI"
        if k == "newline":
            return P + "NEWLINE"
        if k == "skipuntil":
            return f"{P}Skip<'i, {self.wrap_strs(n[1])}>"
        if k == "skipchars":
            return f"{P}SkipChar<'i, {n[1]}>"
        if k == "seq":
            items = [f"{P}Skipped<{self.ty(x)}, Skipped<'i>, {{{n[1]}}}>" for x in n[2]]
            return f"pest_typed::sequence::Seq{len(items)}<" + ", ".join(items) + ">"
        if k == "choice":
            items = [self.ty(x) for x in n[1]]
            return f"pest_typed::choices::Choice{len(items)}<" + ", ".join(items) + ">"
        if k == "opt":
            return f"::core::option::Option<{self.ty(n[1])}>"
        if k == "rep":
            inner = f"{P}Skipped<{self.ty(n[4])}, Skipped<'i>, {{{n[1]}}}>"
            if n[3] is None:
                return f"{P}RepeatMin<{inner}, {n[2]}>"
            return f"{P}RepeatMinMax<{inner}, {n[2]}, {n[3]}>"
        if k == "atomicrepeat":
            return f"{P}AtomicRepeat<{self.ty(n[1])}>"
        if k == "pos":
            return f"{P}Positive<{self.ty(n[1])}>"
        if k == "neg":
            return f"{P}Negative<{self.ty(n[1])}>"
        if k == "push":
            return f"{P}Push<{self.ty(n[1])}>"
        if k == "peek":
            return P + "PEEK<'i>"
        if k == "peekall":
            return P + "PEEK_ALL<'i>"
        if k == "pop":
            return P + "POP<'i>"
        if k == "popall":
            return P + "POP_ALL<'i>"
        if k == "drop":
            return P + "DROP"
        if k == "peekslice":
            if n[2] is None:
                return f"{P}PeekSlice1<{{{n[1]}}}>"
            return f"{P}PeekSlice2<{{{n[1]}}}, {{{n[2]}}}>"
        if k == "ref":
            return f"rules::{n[1]}<'i, {{{n[2]}}}>"
        if k == "array":
            return f"[{self.ty(n[2])}; {n[1]}]"
        if k == "pair":
            return f"({self.ty(n[1])}, {self.ty(n[2])})"
        if k == "empty":
            return P + "Empty<'i>"
        if k == "alwaysfail":
            return P + "AlwaysFail<'i>"
        raise ValueError(k)

    def nf_ty(self, k, mx, elem):
        """the counted repetition with MIN = 0 (the forms that implement NeverFailedTypedNode)"""
        P = "pest_typed::predefined_node::"
        inner = f"{P}Skipped<{self.ty(elem)}, Skipped<'i>, {k}>"
        if mx is None:
            return f"{P}RepeatMin<{inner}, 0>"
        return f"{P}RepeatMinMax<{inner}, 0, {mx}>"


def node_sexp(n, ruleidx):
    k = n[0]
    if k in ("str", "insens"):
        return f"({k} {hexs(n[1])})"
    if k == "range":
        return f"(range {ord(n[1])} {ord(n[2])})"
    if k in ("any", "soi", "eoi", "newline", "peek", "peekall", "pop", "popall", "drop", "empty", "alwaysfail"):
        return f"({k})"
    if k == "skipuntil":
        return "(skipuntil " + " ".join(hexs(s) for s in n[1]) + ")"
    if k == "skipchars":
        return f"(skipchars {n[1]})"
    if k == "seq":
        return f"(seq {n[1]} " + " ".join(node_sexp(x, ruleidx) for x in n[2]) + ")"
    if k == "choice":
        return "(choice " + " ".join(node_sexp(x, ruleidx) for x in n[1]) + ")"
    if k in ("opt", "atomicrepeat", "pos", "neg", "push"):
        return f"({k} {node_sexp(n[1], ruleidx)})"
    if k == "rep":
        return f"(rep {n[1]} {n[2]} {'-' if n[3] is None else n[3]} {node_sexp(n[4], ruleidx)})"
    if k == "peekslice":
        return f"(peekslice {n[1]} {'-' if n[2] is None else n[2]})"
    if k == "ref":
        return f"(ref {ruleidx[n[1]]} {n[2]})"
    if k == "array":
        return f"(array {n[1]} {node_sexp(n[2], ruleidx)})"
    if k == "pair":
        return f"(pair {node_sexp(n[1], ruleidx)} {node_sexp(n[2], ruleidx)})"
    raise ValueError(k)


def grammar_sexp(g, nf_items=False):
    """(nodegrammar <gid> (skipped <node>) (rule <name> <atom> <emit> <boxed> <node>) ...); rule 0 is EOI.
    With `nf_items` (the T-raw suite) the `(ignored ..)` / `(nf ..)` items follow the rules (Driver/NF.lean reads them;
    `Driver.toGrammar` and the printer round trip of checks/tgen.py see the plain form)."""
    ruleidx = {"EOI": 0}
    for i, r in enumerate(g["rules"]):
        ruleidx[r["name"]] = i + 1
    parts = [f"(nodegrammar {g['gid']} (skipped {node_sexp(g['skipped'], ruleidx)})"]
    for r in g["rules"]:
        parts.append(f"(rule {r['name']} {r['atom']} {r['emit']} {'true' if r['boxed'] else 'false'} {node_sexp(r['body'], ruleidx)})")
    if not nf_items:
        return " ".join(parts) + ")"
    mx = lambda m: "-" if m is None else m
    for r in g["rules"]:
        ig = r.get("ignored")
        if ig:
            parts.append(f"(ignored {r['name']} {ig['k']} {mx(ig['max'])} {node_sexp(ig['elem'], ruleidx)})")
    for it in g.get("nf", []):
        parts.append(f"(nf {it['name']} {it['k']} {mx(it['max'])} {node_sexp(it['pre'], ruleidx)} {node_sexp(it['elem'], ruleidx)})")
    return " ".join(parts) + ")"


MOD = '''
pub mod t_@GID@ {
    #![allow(non_camel_case_types, non_snake_case, unused)]
    #[derive(Clone, Copy, Debug, Eq, Hash, Ord, PartialEq, PartialOrd)]
    pub enum Rule { EOI, @RULENAMES@ }
    pub type Skipped<'i> = @SKIPPED@;
    pub mod wrappers { @WRAPPERS@ }
    use wrappers::*;
    pub mod rules {
        use super::*;
        pest_typed::rule_eoi!(EOI, super::Rule);
        @RULES@
    }
}
'''
FN_T = '''fn t_@GID@_@RULE@<'i>(e: &str, f: &str, a: usize, b: usize, i: &'i str) -> String { run_typed::<t_@GID@::Rule, t_@GID@::rules::@RULE@<'i, 1>>(e, f, a, b, i) }
'''
FN_NF = '''fn nf_@GID@_@NAME@<'i>(e: &str, f: &str, a: usize, b: usize, i: &'i str) -> String { vh_common::run_nf::<t_@GID@::Rule, t_@GID@::NFPRE_@NAME@<'i>, t_@GID@::NF_@NAME@<'i>>(e, f, a, b, i) }
'''


def emit_raw_workspace(grammars, outdir, nbins):
    os.makedirs(outdir, exist_ok=True)
    bins = [[] for _ in range(nbins)]
    where = {}
    for i, g in enumerate(grammars):
        bins[i % nbins].append(g)
        where[g["gid"]] = i % nbins
    members = []
    for b, glist in enumerate(bins):
        if not glist:
            continue
        d = os.path.join(outdir, f"r{b}")
        os.makedirs(os.path.join(d, "src"), exist_ok=True)
        members.append(f"r{b}")
        open(os.path.join(d, "Cargo.toml"), "w").write(f'''[package]
name = "r{b}"
version = "0.0.0"
edition = "2021"
[dependencies]
vh_common = {{ path = "{HERE}/common" }}
pest_typed = {{ path = "/repo/main" }}
pest = "=2.7.14"
''')
        code = ["#![allow(warnings)]\nuse vh_common::{run_typed, CaseFn};\n"]
        arms = []
        for g in glist:
            pr = RustPrinter(g["gid"])
            skipped = pr.ty(g["skipped"])
            rules = []
            for r in g["rules"]:
                inner = pr.ty(r["body"])
                ig = r.get("ignored")
                ignored = pr.nf_ty(ig["k"], ig["max"], ig["elem"]) if ig else "Skipped<'i>"
                rules.append(f'pest_typed::rule!({r["name"]}, "raw", super::Rule, super::Rule::{r["name"]}, {inner}, {ignored}, {r["atom"]}, {r["emit"]}, {"true" if r["boxed"] else "false"});')
                code.append(fill(FN_T, GID=g["gid"], RULE=r["name"]))
                arms.append(f'        ("{g["gid"]}", "{r["name"]}") => Some((t_{g["gid"]}_{r["name"]} as CaseFn, None)),')
            extra = []
            for it in g.get("nf", []):
                extra.append(f"pub type NF_{it['name']}<'i> = {pr.nf_ty(it['k'], it['max'], it['elem'])};")
                extra.append(f"pub type NFPRE_{it['name']}<'i> = {pr.ty(it['pre'])};")
                code.append(fill(FN_NF, GID=g["gid"], NAME=it["name"]))
                arms.append(f'        ("{g["gid"]}", "{it["name"]}") => Some((nf_{g["gid"]}_{it["name"]} as CaseFn, None)),')
            # the type aliases of the direct-call items live at module level (MOD itself is shared with accgen.py: unchanged)
            mod = MOD.replace("    pub mod rules {", "    " + "\n    ".join(extra) + "\n    pub mod rules {", 1) if extra else MOD
            code.append(fill(mod, GID=g["gid"], RULENAMES=", ".join(r["name"] for r in g["rules"]),
                             SKIPPED=skipped, WRAPPERS="\n".join(pr.wrappers), RULES="\n        ".join(rules)))
        code.append("fn dispatch(gid: &str, rule: &str) -> Option<(CaseFn, Option<fn(&str) -> String>)> {\n    match (gid, rule) {\n" + "\n".join(arms) + "\n        _ => None,\n    }\n}\n")
        code.append("fn main() { vh_common::serve(dispatch); }\n")
        path = os.path.join(d, "src", "main.rs")
        new = "\n".join(code)
        old = open(path).read() if os.path.exists(path) else None
        if old != new:
            open(path, "w").write(new)
    open(os.path.join(outdir, "Cargo.toml"), "w").write("[workspace]\nresolver = \"2\"\nmembers = [" + ", ".join(f'"{m}"' for m in members) + "]\n" + PROFILE)
    import subprocess
    subprocess.check_call(["cp", "/repo/Cargo.lock", os.path.join(outdir, "Cargo.lock")])
    return where


# ---------------------------------------------------------------------------------------------
# systematic raw grammars

def S(s):
    return ("str", s)


WS_SKIP = ("atomicrepeat", ("ref", "WS", "0"))


def ws_rule():
    return dict(name="WS", atom="true", emit="Span", boxed=False, body=S(" "))


def rule(name, body, atom="INHERITED", emit="Both", boxed=False):
    return dict(name=name, atom=atom, emit=emit, boxed=boxed, body=body)


def rep_grammars():
    """C19: MIN, MAX in 0..4 x skip on/off x element kinds."""
    gs = []
    elems = {
        "s": S("a"),
        "c": ("choice", [S("ab"), S("a")]),
        "n": ("rep", "0", 1, 2, S("a")),
        "k": ("seq", "0", [("push", S("a")), ("pop",)]),
        # the element is a rule struct: every element (and, WS being one too, every skipped blank) carries its span
        "r": ("ref", "E", "0"),
    }
    for ek, el in elems.items():
        rules = [ws_rule()] + ([rule("E", ("choice", [S("ab"), S("a")]))] if ek == "r" else [])
        for skip in ("0", "1"):
            for mn in range(0, 5):
                rules.append(rule(f"min_{skip}_{mn}", ("rep", skip, mn, None, el)))
                for mx in range(0, 5):
                    rules.append(rule(f"mm_{skip}_{mn}_{mx}", ("rep", skip, mn, mx, el)))
        # skip flag written `INHERITED` (as the generator writes it inside `^`-less rules): the rule run directly is
        # instantiated with INHERITED = 1; `c0_*` reaches it with INHERITED = 0 (skip off), `c1_*` with 1
        for mn in range(0, 3):
            for mx in (None, 1, 2, 4):
                nm = f"{mn}_{'u' if mx is None else mx}"
                rules.append(rule(f"inh_{nm}", ("rep", "INHERITED", mn, mx, el)))
                rules.append(rule(f"c0_{nm}", ("ref", f"inh_{nm}", "0")))
                rules.append(rule(f"c1_{nm}", ("seq", "0", [("ref", f"inh_{nm}", "1"), ("opt", S("b"))])))
        gs.append(dict(gid=f"rep_{ek}", rules=rules, skipped=WS_SKIP))
    # bounded repetition of elements that can match WITHOUT consuming (optional, nested repetition with MIN 0,
    # stack operations): greedy up to MAX even at end of input; only bounded forms (an unbounded one would not terminate)
    nullable = {
        "o": ("opt", S("a")),
        "z": ("rep", "0", 0, 2, S("a")),
        "e": ("choice", [S("ab"), ("empty",)]),
    }
    for ek, el in nullable.items():
        rules = [ws_rule()]
        for skip in ("0", "1"):
            for mn in range(0, 5):
                for mx in range(0, 5):
                    rules.append(rule(f"mm_{skip}_{mn}_{mx}", ("rep", skip, mn, mx, el)))
                    rules.append(rule(f"mt_{skip}_{mn}_{mx}", ("seq", skip, [("rep", skip, mn, mx, el), S("b")])))
        for mn in (0, 2):
            for mx in (1, 3):
                rules.append(rule(f"inh_{mn}_{mx}", ("seq", "INHERITED", [("rep", "INHERITED", mn, mx, el), S("b")])))
                rules.append(rule(f"c0_{mn}_{mx}", ("ref", f"inh_{mn}_{mx}", "0")))
        gs.append(dict(gid=f"rep_null_{ek}", rules=rules, skipped=WS_SKIP))
    rules = [ws_rule()]
    P2 = [("push", ("choice", [S("a"), S("b")])), ("push", ("choice", [S("b"), S("a")]))]
    P3 = P2 + [("push", ("opt", S(" ")))]
    for mn in range(0, 5):
        for mx in range(0, 5):
            rules.append(rule(f"dr_{mn}_{mx}", ("seq", "0", P2 + [("rep", "0", mn, mx, ("drop",)), ("peekall",)])))
            rules.append(rule(f"pk_{mn}_{mx}", ("seq", "1", [("push", ("opt", S("a")))] + [("rep", "1", mn, mx, ("peek",)), ("opt", S("b"))])))
            # POP as the element: every iteration consumes the text of one entry and removes it; a failing POP has
            # already removed its entry and the iteration must give it back
            rules.append(rule(f"pp_{mn}_{mx}", ("seq", "0", P3 + [("rep", "INHERITED", mn, mx, ("pop",)), ("opt", ("peekall",))])))
        rules.append(rule(f"du_{mn}", ("seq", "0", P2 + [("rep", "0", mn, None, ("drop",)), ("opt", ("peek",))])))
    gs.append(dict(gid="rep_stackops", rules=rules, skipped=WS_SKIP))
    # arrays, pairs, optionals, skip-n-chars, skip-repeat
    rules = [ws_rule()]
    for k in range(0, 4):
        rules.append(rule(f"arr_{k}", ("array", k, ("choice", [S("ab"), S("a")]))))
        rules.append(rule(f"skipn_{k}", ("skipchars", k), atom="true", emit="Span"))
    rules.append(rule("pair", ("pair", S("a"), ("opt", S("b")))))
    rules.append(rule("opt", ("opt", ("seq", "0", [S("a"), S("b")]))))
    rules.append(rule("arep", ("atomicrepeat", ("choice", [S("ab"), S("a")]))))
    rules.append(rule("arep_ws", ("seq", "0", [WS_SKIP, S("a"), WS_SKIP])))
    gs.append(dict(gid="rep_misc", rules=rules, skipped=WS_SKIP))
    return gs


def nf_grammars():
    """C19: the counted repetitions with MIN = 0 as `NeverFailedTypedNode` — `RepeatMin<Skipped<T, Skip, K>, 0>` and
    `RepeatMinMax<Skipped<T, Skip, K>, 0, MAX>` (`parse_with` / `check_with`: loops of their own, a private tracker):
    (a) called directly (items `nf`), K in 0..2, MAX in none, 0..4, element kinds as in `rep_grammars` plus elements that can
    match without consuming (bounded forms only: the unbounded loop would not terminate) and stack operations starting from
    a non-empty stack; (b) as the `$ignored` argument of `rule!` (trailing skip of the full entries)."""
    gs = []
    E = ("ref", "E", "0")
    base = lambda: [ws_rule(), rule("E", ("choice", [S("ab"), S("a")])), rule("B", S("b"))]
    PRE_B = ("opt", ("ref", "B", "0"))          # leaves an attempt in the caller's tracker, may move the cursor
    P2 = ("seq", "0", [("push", ("choice", [S("a"), S("b")])), ("push", ("choice", [S("b"), S("a")]))])
    consuming = {
        "s": (("empty",), S("a")),
        "r": (PRE_B, E),                                   # elements and skips carry spans (rule structs)
        "c": (("empty",), ("choice", [S("ab"), S("a")])),
        "n": (("empty",), ("rep", "1", 1, 2, S("a"))),
        "k": (("push", ("opt", S("b"))), ("seq", "0", [("push", S("a")), ("pop",)])),
    }
    for ek, (pre, el) in consuming.items():
        items = []
        for k in (0, 1, 2):
            for mx in (None, 0, 1, 2, 3, 4):
                items.append(dict(name=f"nf_{k}_{'u' if mx is None else mx}", k=k, max=mx, pre=pre, elem=el))
        gs.append(dict(gid=f"rep_nf_{ek}", rules=base(), skipped=WS_SKIP, nf=items))
    nullable = {
        "o": (("empty",), ("opt", E)),
        "e": (PRE_B, ("choice", [S("ab"), ("empty",)])),
        "p": (("push", ("opt", S("a"))), ("peek",)),        # PEEK of a possibly empty entry
    }
    for ek, (pre, el) in nullable.items():
        items = []
        for k in (0, 1):
            for mx in (0, 1, 2, 3, 4):
                items.append(dict(name=f"nf_{k}_{mx}", k=k, max=mx, pre=pre, elem=el))
        gs.append(dict(gid=f"rep_nf_{ek}", rules=base(), skipped=WS_SKIP, nf=items))
    # stack-consuming elements: DROP / POP on a two-entry stack (the unbounded forms stop when the stack is empty)
    items = []
    for k in (0, 1):
        for mx in (None, 0, 1, 2, 3):
            nm = f"{k}_{'u' if mx is None else mx}"
            items.append(dict(name=f"nf_d_{nm}", k=k, max=mx, pre=P2, elem=("drop",)))
            items.append(dict(name=f"nf_q_{nm}", k=k, max=mx, pre=P2, elem=("pop",)))
            items.append(dict(name=f"nf_x_{nm}", k=k, max=mx, pre=P2, elem=("seq", "0", [("pop",), S("a")])))
    gs.append(dict(gid="rep_nf_stack", rules=base(), skipped=WS_SKIP, nf=items))
    # (b) `$ignored`
    rules = base()
    els = {"w": ("ref", "WS", "0"), "b": S("b"), "c": ("choice", [S(" "), ("ref", "B", "0")])}
    for ek, el in els.items():
        for k in (0, 1):
            for mx in (None, 0, 1, 2, 4):
                nm = f"{ek}_{k}_{'u' if mx is None else mx}"
                r = rule(f"ig_{nm}", ("seq", "1", [S("a"), ("opt", S("a"))]), atom="false")
                r["ignored"] = dict(k=k, max=mx, elem=el)
                rules.append(r)
    for atom in ("INHERITED", "true"):
        r = rule(f"ig_at_{atom}", S("a"), atom=atom)
        r["ignored"] = dict(k=1, max=2, elem=S("b"))
        rules.append(r)
    gs.append(dict(gid="rep_nf_ign", rules=rules, skipped=WS_SKIP))
    return gs


def replace_grammars():
    """C19 / C05: elements that REPLACE the top of the stack (pop-then-push: the depth is the same before and after a matched
    iteration, the content is not) under every repetition form, after a pushing prefix (1-2 pushes) and before a stack-reading
    suffix (none: the stack itself is observed; PEEK; PEEK_ALL) in the same rule.  When iteration k matches and k+1 fails, the
    stack must be what iteration k left - not what an earlier iteration or the prefix left."""
    ANYAB = ("choice", [S("a"), S("b")])
    elems = {
        "d": ([("push", S("a"))], ("seq", "0", [("drop",), ("push", S("b"))])),
        "t": ([("push", S("a"))], ("pair", ("drop",), ("push", S("b")))),                     # the tuple form `(DROP, Push<..>)`
        "q": ([("push", ANYAB), ("push", ANYAB)], ("seq", "0", [("pop",), ("push", ("any",))])),
        "p": ([("push", ANYAB), ("push", ANYAB)], ("seq", "0", [("peek",), ("seq", "0", [("drop",), ("push", ANYAB)])])),
    }
    suffixes = {"n": [], "k": [("peek",)], "a": [("peekall",)]}
    bounds0 = [(0, None), (1, None), (0, 1), (0, 2), (0, 3), (1, 2), (2, 4), (3, 3)]
    bounds1 = [(0, None), (0, 3), (1, 2), (2, 4)]
    rules = [ws_rule()]
    items = []
    for ek, (pre, el) in elems.items():
        forms = [(f"r0_{mn}_{'u' if mx is None else mx}", "0", ("rep", "0", mn, mx, el)) for mn, mx in bounds0]
        forms += [(f"r1_{mn}_{'u' if mx is None else mx}", "1", ("rep", "1", mn, mx, el)) for mn, mx in bounds1]
        forms += [("arep", "0", ("atomicrepeat", el)), ("opt", "0", ("opt", el)), ("arr1", "0", ("array", 1, el)),
                  ("arr2", "0", ("array", 2, el)), ("optrep", "0", ("opt", ("seq", "0", [("rep", "0", 1, 3, el), S("a")])))]
        for fk, sk, form in forms:
            for sfk, sf in suffixes.items():
                rules.append(rule(f"{ek}_{fk}_{sfk}", ("seq", sk, pre + [form] + sf)))
        for k in (0, 1):
            for mx in (None, 1, 3):
                items.append(dict(name=f"nf_{ek}_{k}_{'u' if mx is None else mx}", k=k, max=mx, pre=pre[0] if len(pre) == 1 else ("seq", "0", pre), elem=el))
    return [dict(gid="rep_replace", rules=rules, skipped=WS_SKIP, nf=items)]


def slice_grammars():
    """C06: stack depth 0..4 x a,b in -6..6 (b optional), atomic and non-atomic context."""
    gs = []
    vals = ["a", "b", "ab", "", "ba"]
    for depth in range(0, 5):
        for ctx in ("n", "a"):
            rules = [ws_rule()]
            sk = "1" if ctx == "n" else "0"
            pushes = [("push", ("choice", [S("ab"), S("a"), S("b"), S("")])) for _ in range(depth)]
            for a in range(-6, 7):
                for b in [None] + list(range(-6, 7)):
                    nm = f"p_{'m' if a < 0 else ''}{abs(a)}_" + ("o" if b is None else f"{'m' if b < 0 else ''}{abs(b)}")
                    body = ("seq", sk, pushes + [("peekslice", a, b)]) if pushes else ("peekslice", a, b)
                    rules.append(rule(nm, body, atom="false" if ctx == "n" else "true"))
            gs.append(dict(gid=f"slice_{depth}{ctx}", rules=rules, skipped=WS_SKIP))
    # every stack builtin in both contexts
    for ctx in ("n", "a"):
        sk = "1" if ctx == "n" else "0"
        at = "false" if ctx == "n" else "true"
        P = ("push", ("choice", [S("ab"), S("a"), S("b")]))
        rules = [ws_rule(),
                 rule("peek", ("seq", sk, [P, ("peek",)]), atom=at),
                 rule("peek0", ("peek",), atom=at),
                 rule("pop", ("seq", sk, [P, P, ("pop",), ("pop",)]), atom=at),
                 rule("pop0", ("seq", sk, [P, ("pop",), ("pop",)]), atom=at),
                 rule("drop", ("seq", sk, [P, P, ("drop",), ("peek",)]), atom=at),
                 rule("drop0", ("drop",), atom=at),
                 rule("peekall", ("seq", sk, [P, P, P, ("peekall",)]), atom=at),
                 rule("peekall0", ("peekall",), atom=at),
                 rule("popall", ("seq", sk, [P, P, ("popall",), ("opt", ("peek",))]), atom=at),
                 rule("popall0", ("seq", sk, [("popall",), ("opt", ("drop",))]), atom=at),
                 rule("pushskip", ("seq", sk, [("push", ("seq", sk, [S("a"), S("b")])), ("peek",)]), atom=at),
                 ]
        gs.append(dict(gid=f"stackops_{ctx}", rules=rules, skipped=WS_SKIP))
    return gs


def arity_grammars():
    """C17: choices and sequences of every library arity 2..12."""
    gs = []
    rules = [ws_rule()]
    for n in range(2, 13):
        # alternative i matches the string "a"*(n-i): overlapping prefixes, first match wins
        alts = [S("a" * (n - i)) for i in range(n)]
        rules.append(rule(f"ch_{n}", ("choice", alts)))
        alts2 = [("seq", "0", [S("a" * (i + 1)), S("b")]) for i in range(n)]
        rules.append(rule(f"chb_{n}", ("choice", alts2)))
        items = [("opt", S("a")) if i % 2 == 0 else S("b") for i in range(n)]
        rules.append(rule(f"sq_{n}", ("seq", "1", items)))
    gs.append(dict(gid="arity", rules=rules, skipped=WS_SKIP))
    return gs


def leaf_grammars():
    rules = [ws_rule(),
             rule("range", ("range", "a", "é")),
             rule("any", ("any",)),
             rule("insens", ("insens", "aBé")),
             rule("newline", ("newline",)),
             rule("soi", ("seq", "0", [("soi",), ("any",), ("soi",)])),
             rule("eoi", ("seq", "0", [("opt", ("any",)), ("eoi",)]), atom="true", emit="Span"),
             rule("until", ("seq", "0", [("skipuntil", ["ab", "c"]), ("opt", S("ab"))])),
             rule("until_e", ("skipuntil", [""])),
             rule("empty", ("seq", "1", [("empty",), S("a"), ("empty",)])),
             rule("fail", ("choice", [("alwaysfail",), S("a")])),
             rule("posneg", ("seq", "0", [("pos", S("a")), ("neg", S("ab")), ("any",)])),
             ]
    return [dict(gid="leaf", rules=rules, skipped=WS_SKIP)]


def all_raw():
    return rep_grammars() + nf_grammars() + replace_grammars() + slice_grammars() + arity_grammars() + leaf_grammars()
