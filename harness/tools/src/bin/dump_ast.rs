//! dump_ast: reads grammars (one per line: `<gid>\t<hex of grammar text>`) on stdin and prints, per
//! grammar, either `<gid>\tERR\t<hex of pest_meta's message>` or
//! `<gid>\tOK\t(grammar <gid> (rule <name> <kind> <optimized-expr> <raw-expr>) ...)`.
//! pest_meta (parser, validator, optimizer) is external to the repository: its output is the
//! *input* of the model (`Model.Pest`).
use pest_meta::ast::{Expr, RuleType};
use pest_meta::optimizer::OptimizedExpr as O;
use std::io::{BufRead, Write};

fn hex(s: &str) -> String {
    if s.is_empty() { return "-".into(); }
    s.bytes().map(|b| format!("{:02x}", b)).collect()
}
fn unhex(s: &str) -> String {
    if s == "-" { return String::new(); }
    let b: Vec<u8> = (0..s.len()).step_by(2).map(|i| u8::from_str_radix(&s[i..i + 2], 16).unwrap()).collect();
    String::from_utf8(b).unwrap()
}
fn cp(s: &str) -> u32 { s.chars().next().unwrap() as u32 }

fn opt(e: &O) -> String {
    match e {
        O::Str(s) => format!("(str {})", hex(s)),
        O::Insens(s) => format!("(insens {})", hex(s)),
        O::Range(a, b) => format!("(range {} {})", cp(a), cp(b)),
        O::Ident(n) => format!("(ident {})", n),
        O::PeekSlice(a, b) => format!("(peekslice {} {})", a, b.map_or("-".to_string(), |x| x.to_string())),
        O::PosPred(e) => format!("(pos {})", opt(e)),
        O::NegPred(e) => format!("(neg {})", opt(e)),
        O::Seq(a, b) => format!("(seq {} {})", opt(a), opt(b)),
        O::Choice(a, b) => format!("(choice {} {})", opt(a), opt(b)),
        O::Opt(e) => format!("(opt {})", opt(e)),
        O::Rep(e) => format!("(rep {})", opt(e)),
        O::Skip(v) => format!("(skip {})", v.iter().map(|s| hex(s)).collect::<Vec<_>>().join(" ")),
        O::Push(e) => format!("(push {})", opt(e)),
        O::RestoreOnErr(e) => format!("(restore {})", opt(e)),
        #[allow(unreachable_patterns)]
        _ => "(unsupported)".into(),
    }
}
fn raw(e: &Expr) -> String {
    match e {
        Expr::Str(s) => format!("(str {})", hex(s)),
        Expr::Insens(s) => format!("(insens {})", hex(s)),
        Expr::Range(a, b) => format!("(range {} {})", cp(a), cp(b)),
        Expr::Ident(n) => format!("(ident {})", n),
        Expr::PeekSlice(a, b) => format!("(peekslice {} {})", a, b.map_or("-".to_string(), |x| x.to_string())),
        Expr::PosPred(e) => format!("(pos {})", raw(e)),
        Expr::NegPred(e) => format!("(neg {})", raw(e)),
        Expr::Seq(a, b) => format!("(seq {} {})", raw(a), raw(b)),
        Expr::Choice(a, b) => format!("(choice {} {})", raw(a), raw(b)),
        Expr::Opt(e) => format!("(opt {})", raw(e)),
        Expr::Rep(e) => format!("(rep {})", raw(e)),
        Expr::RepOnce(e) => format!("(reponce {})", raw(e)),
        Expr::RepExact(e, n) => format!("(repexact {} {})", raw(e), n),
        Expr::RepMin(e, n) => format!("(repmin {} {})", raw(e), n),
        Expr::RepMax(e, n) => format!("(repmax {} {})", raw(e), n),
        Expr::RepMinMax(e, n, m) => format!("(repminmax {} {} {})", raw(e), n, m),
        Expr::Skip(v) => format!("(skip {})", v.iter().map(|s| hex(s)).collect::<Vec<_>>().join(" ")),
        Expr::Push(e) => format!("(push {})", raw(e)),
        #[allow(unreachable_patterns)]
        _ => "(unsupported)".into(),
    }
}
fn kind(t: RuleType) -> &'static str {
    match t {
        RuleType::Normal => "normal",
        RuleType::Silent => "silent",
        RuleType::Atomic => "atomic",
        RuleType::CompoundAtomic => "compound",
        RuleType::NonAtomic => "nonatomic",
    }
}

fn main() {
    std::panic::set_hook(Box::new(|_| {}));
    let stdin = std::io::stdin();
    let out = std::io::stdout();
    let mut out = out.lock();
    for line in stdin.lock().lines() {
        let line = line.unwrap();
        let mut it = line.split('\t');
        let gid = it.next().unwrap().to_string();
        let text = unhex(it.next().unwrap_or("-"));
        let res = std::panic::catch_unwind(|| {
            let pairs = pest_meta::parser::parse(pest_meta::parser::Rule::grammar_rules, &text)
                .map_err(|e| format!("{}", e.renamed_rules(pest_meta::parser::rename_meta_rule)))?;
            let ast = pest_meta::parser::consume_rules(pairs)
                .map_err(|es| es.iter().map(|e| format!("{}", e)).collect::<Vec<_>>().join("\n"))?;
            let optimized = pest_meta::optimizer::optimize(ast.clone());
            let mut s = format!("(grammar {}", gid);
            for (r, o) in ast.iter().zip(optimized.iter()) {
                s.push_str(&format!(" (rule {} {} {} {})", r.name, kind(r.ty), opt(&o.expr), raw(&r.expr)));
            }
            s.push(')');
            Ok::<String, String>(s)
        });
        match res {
            Ok(Ok(s)) => {
                // does pest's own front end (incl. `validate_pairs`, which pest-typed's derive skips) accept it?
                let t2 = text.clone();
                let pest_ok = std::panic::catch_unwind(move || pest_meta::parse_and_optimize(&t2).is_ok()).unwrap_or(false);
                writeln!(out, "{}\tOK\t{}\t{}", gid, s, if pest_ok { "PESTOK" } else { "PESTERR" }).unwrap()
            }
            Ok(Err(e)) => writeln!(out, "{}\tERR\t{}", gid, hex(&e)).unwrap(),
            Err(_) => writeln!(out, "{}\tERR\t{}", gid, hex("panic in pest_meta")).unwrap(),
        }
    }
}
