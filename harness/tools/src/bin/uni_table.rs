//! uni_table — pest 2.7.14's Unicode property tables restricted to a fixed test alphabet.
//!
//! Output: one line per property name of `pest::unicode::unicode_property_names()`:
//!   `<NAME>\t<hex of the UTF-8 of the alphabet characters for which the property holds>`
//! (`-` for the empty set), preceded by one line `#alphabet\t<hex of the whole alphabet>`.
//! The Lean model driver loads this file (second CLI argument / env VERIF_UNI_TABLE) so that the
//! model's `charBy name` answers exactly as pest's table on the alphabet (T-run tie, C01).
//!
//! `uni_table names` prints only the property names, one per line.

use pest::unicode::{by_name, unicode_property_names};

/// The test alphabet (68 characters): ASCII letters / digits / punctuation / controls, Latin-1 and
/// beyond in several scripts and categories, a combining mark, separators, format characters,
/// an emoji, a private-use and an unassigned code point.
pub const ALPHABET: &[char] = &[
    // ASCII
    'a', 'b', 'f', 'z', 'A', 'B', 'F', 'Z', '0', '1', '7', '9', ' ', '\t', '\n', '\r', '_', '-', '+', '$', '(', ')',
    '"', '.', '#', '~', '^', '/', 'x', '\u{0}', '\u{7f}',
    // Latin-1 / Latin Extended
    '\u{e9}',   // é  Ll
    '\u{c9}',   // É  Lu
    '\u{df}',   // ß  Ll, no simple uppercase
    '\u{aa}',   // ª  Lo, Other_Lowercase
    '\u{b2}',   // ²  No
    '\u{a0}',   // NBSP  Zs
    '\u{ab}',   // «  Pi
    '\u{d7}',   // ×  Sm
    '\u{1c5}',  // ǅ  Lt
    // other scripts
    '\u{3a9}',  // Ω  Greek Lu
    '\u{3c9}',  // ω  Greek Ll
    '\u{436}',  // ж  Cyrillic
    '\u{5d0}',  // א  Hebrew
    '\u{627}',  // ا  Arabic
    '\u{663}',  // ٣  Arabic-Indic digit Nd
    '\u{915}',  // क  Devanagari
    '\u{e01}',  // ก  Thai
    '\u{4e2d}', // 中 Han
    '\u{3042}', // あ Hiragana
    '\u{30a2}', // ア Katakana
    '\u{ac00}', // 가 Hangul
    '\u{2160}', // Ⅰ  Nl
    '\u{2b0}',  // ʰ  Lm
    // marks, separators, format, symbols
    '\u{301}',  // combining acute  Mn
    '\u{903}',  // Devanagari visarga  Mc
    '\u{20dd}', // combining enclosing circle  Me
    '\u{200d}', // ZWJ  Cf
    '\u{200e}', // LRM  Cf, Bidi_Control
    '\u{2028}', // LINE SEPARATOR  Zl
    '\u{2029}', // PARAGRAPH SEPARATOR  Zp
    '\u{3000}', // IDEOGRAPHIC SPACE  Zs
    '\u{20ac}', // €  Sc
    '\u{203f}', // ‿  Pc
    '\u{1f600}', // 😀  So, Emoji
    '\u{e000}', // private use  Co
    '\u{378}',  // unassigned  Cn
    '\u{10ffff}', // noncharacter
];

fn hex(s: &str) -> String {
    if s.is_empty() {
        return "-".to_string();
    }
    s.bytes().map(|b| format!("{:02x}", b)).collect()
}

fn main() {
    let args: Vec<String> = std::env::args().collect();
    let mut names: Vec<&'static str> = unicode_property_names().collect();
    names.sort();
    names.dedup();
    if args.get(1).map(|s| s.as_str()) == Some("names") {
        for n in names {
            println!("{}", n);
        }
        return;
    }
    let all: String = ALPHABET.iter().collect();
    println!("#alphabet\t{}", hex(&all));
    for name in names {
        let f = match by_name(name) {
            Some(f) => f,
            None => {
                eprintln!("uni_table: pest::unicode::by_name({:?}) is None", name);
                std::process::exit(3);
            }
        };
        let set: String = ALPHABET.iter().copied().filter(|c| f(*c)).collect();
        println!("{}\t{}", name, hex(&set));
    }
}
