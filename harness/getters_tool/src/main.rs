//! getters_tool (C16, tie T-gen): runs /repo's generator AS A LIBRARY on grammars with
//! `#[emit_rule_reference]` (optionally `#[pest_optimizer = false]`) and prints every accessor
//! function it emits: for each inherent `impl` block of a rule struct, each `fn`: its name, its return
//! type and its body as token text without white space.
//!
//! stdin : `<gid>\t<opt|raw>\t<hex of grammar text>` per line
//! stdout: `<gid>\t<opt|raw>\tOK\t<rule> @@ <fn> @@ <type> @@ <body> ## …`  or  `<gid>\t<variant>\tERR\t<hex message>`
use quote::{quote, ToTokens};
use std::io::{self, BufRead, Write};
use syn::visit::Visit;

fn hex(s: &str) -> String {
    if s.is_empty() { return "-".into(); }
    s.bytes().map(|b| format!("{:02x}", b)).collect()
}
fn unhex(s: &str) -> String {
    if s == "-" { return String::new(); }
    let b: Vec<u8> = (0..s.len()).step_by(2).map(|i| u8::from_str_radix(&s[i..i + 2], 16).unwrap()).collect();
    String::from_utf8(b).unwrap()
}
fn squeeze(s: String) -> String { s.chars().filter(|c| !c.is_whitespace()).collect() }

struct V { out: Vec<String> }
impl<'ast> Visit<'ast> for V {
    fn visit_item_impl(&mut self, i: &'ast syn::ItemImpl) {
        if i.trait_.is_none() {
            if let syn::Type::Path(p) = &*i.self_ty {
                let name = p.path.segments.last().unwrap().ident.to_string();
                let name = name.trim_start_matches("r#").to_string();
                for it in &i.items {
                    if let syn::ImplItem::Fn(f) = it {
                        let fname = f.sig.ident.to_string().trim_start_matches("r#").to_string();
                        let ty = match &f.sig.output { syn::ReturnType::Type(_, t) => squeeze(t.to_token_stream().to_string()), _ => "()".into() };
                        let body = squeeze(f.block.to_token_stream().to_string());
                        self.out.push(format!("{} @@ {} @@ {} @@ {}", name, fname, ty, body));
                    }
                }
            }
        }
        syn::visit::visit_item_impl(self, i);
    }
}

fn main() {
    std::panic::set_hook(Box::new(|_| {}));
    let out = io::stdout();
    let mut out = out.lock();
    for line in io::stdin().lock().lines() {
        let line = line.unwrap();
        let f: Vec<&str> = line.split('\t').collect();
        if f.len() != 3 { continue; }
        let (gid, variant, g) = (f[0].to_string(), f[1].to_string(), unhex(f[2]));
        let raw = variant == "raw";
        let res = std::panic::catch_unwind(move || {
            let ts = if raw {
                pest_typed_generator::derive_typed_parser(quote! { #[grammar_inline = #g] #[emit_rule_reference] #[pest_optimizer = false] #[no_warnings] struct P; }, false, true)
            } else {
                pest_typed_generator::derive_typed_parser(quote! { #[grammar_inline = #g] #[emit_rule_reference] #[no_warnings] struct P; }, false, true)
            };
            let file: syn::File = syn::parse2(ts).map_err(|e| format!("generated code does not parse: {}", e))?;
            let mut v = V { out: vec![] };
            v.visit_file(&file);
            Ok::<Vec<String>, String>(v.out)
        });
        match res {
            Ok(Ok(v)) => writeln!(out, "{}\t{}\tOK\t{}", gid, variant, v.join(" ## ")).unwrap(),
            Ok(Err(e)) => writeln!(out, "{}\t{}\tERR\t{}", gid, variant, hex(&e)).unwrap(),
            Err(_) => writeln!(out, "{}\t{}\tERR\t{}", gid, variant, hex("generator panicked")).unwrap(),
        }
    }
}
