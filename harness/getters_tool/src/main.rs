//! getters_tool (C16, tie T-gen): runs /repo's generator AS A LIBRARY on grammars with `#[emit_rule_reference]`
//! (optionally `#[pest_optimizer = false]`, `#[box_only_if_needed]`) and reports every accessor function it emits —
//! not as text but as STRUCTURE: the body is evaluated symbolically (let-bindings, blocks, closures, references are
//! resolved; variable names, redundant `; res`, `.map(f)` vs `.and_then(|r| Some(f r))` do not matter) into the chain
//! of field / method hops it performs from `self.content`, which is then read back as a getter path
//!
//!   P ::= (rule) | (content P) | (seq I P) | (choice I F P) | (opt F P) | (rep P) | (tuple P …) | (unknown …)
//!
//! (`F` = 1 when the `Option` is `.flatten()`ed; hops in front of a tuple are distributed into its components),
//! and the return type as  T ::= (ref NAME) | (opt T) | (vec T) | (tuple T …).
//!
//! stdin : `<gid>\t<variant: opt|raw|optbox|rawbox>\t<hex of grammar text>` per line
//! stdout: `<gid>\t<variant>\tOK\t<rule> @@ <fn> @@ <type> @@ <boxed 0|1|?> @@ <path> ## …`  or  `…\tERR\t<hex message>`
use quote::quote;
use std::collections::HashMap;
use std::io::{self, BufRead, Write};
use syn::visit::Visit;

fn hex(s: &str) -> String {
    if s.is_empty() { return "-".into(); }
    s.bytes().map(|b| format!("{:02x}", b)).collect()
}
fn unhex(s: &str) -> String {
    if s == "-" { return String::new(); }
    let b: Vec<u8> = (0..s.len()).step_by(2).map(|i| u8::from_str_radix(&s[i..i + 2], 16).unwrap()).collect();
    String::from_utf8(b).unwrap()
}
fn plain(id: &syn::Ident) -> String { id.to_string().trim_start_matches("r#").to_string() }

// ------------------------------------------------------------------------------------------------
// symbolic values

#[derive(Clone, Debug)]
enum Sym {
    Hole(usize),
    SelfVal,
    Field(Box<Sym>, String),
    Deref(Box<Sym>),
    Method(Box<Sym>, String, Vec<Arg>),
    Tuple(Vec<Sym>),
    SomeOf(Box<Sym>),
    Unknown(String),
}
#[derive(Clone, Debug)]
enum Arg { Closure(usize, Box<Sym>), Other }

struct Ev { next_hole: usize }
type Env = HashMap<String, Sym>;

impl Ev {
    fn block(&mut self, b: &syn::Block, env: &Env) -> Sym {
        let mut env = env.clone();
        let n = b.stmts.len();
        for (k, st) in b.stmts.iter().enumerate() {
            match st {
                syn::Stmt::Local(l) => {
                    let name = match &l.pat { syn::Pat::Ident(p) => plain(&p.ident), _ => return Sym::Unknown("let-pattern".into()) };
                    let v = match &l.init { Some(i) => self.expr(&i.expr, &env), None => return Sym::Unknown("let-without-init".into()) };
                    env.insert(name, v);
                }
                syn::Stmt::Expr(e, semi) => {
                    if k + 1 == n && semi.is_none() { return self.expr(e, &env); }
                    return Sym::Unknown("statement".into());
                }
                _ => return Sym::Unknown("item-or-macro".into()),
            }
        }
        Sym::Unknown("block-without-value".into())
    }
    fn expr(&mut self, e: &syn::Expr, env: &Env) -> Sym {
        match e {
            syn::Expr::Path(p) if p.path.segments.len() == 1 => {
                let n = plain(&p.path.segments[0].ident);
                if n == "self" { Sym::SelfVal } else { env.get(&n).cloned().unwrap_or(Sym::Unknown(format!("variable-{}", n))) }
            }
            syn::Expr::Reference(r) => self.expr(&r.expr, env),
            syn::Expr::Paren(p) => self.expr(&p.expr, env),
            syn::Expr::Group(g) => self.expr(&g.expr, env),
            syn::Expr::Unary(u) if matches!(u.op, syn::UnOp::Deref(_)) => Sym::Deref(Box::new(self.expr(&u.expr, env))),
            syn::Expr::Field(f) => {
                let m = match &f.member { syn::Member::Named(i) => plain(i), syn::Member::Unnamed(i) => i.index.to_string() };
                Sym::Field(Box::new(self.expr(&f.base, env)), m)
            }
            syn::Expr::Block(b) => self.block(&b.block, env),
            syn::Expr::Tuple(t) => Sym::Tuple(t.elems.iter().map(|x| self.expr(x, env)).collect()),
            syn::Expr::MethodCall(m) => {
                let recv = self.expr(&m.receiver, env);
                let args = m.args.iter().map(|a| match a {
                    syn::Expr::Closure(c) if c.inputs.len() == 1 => {
                        let name = match &c.inputs[0] { syn::Pat::Ident(p) => plain(&p.ident), _ => return Arg::Other };
                        let h = self.next_hole; self.next_hole += 1;
                        let mut env2 = env.clone();
                        env2.insert(name, Sym::Hole(h));
                        Arg::Closure(h, Box::new(self.expr(&c.body, &env2)))
                    }
                    _ => Arg::Other,
                }).collect();
                Sym::Method(Box::new(recv), plain(&m.method), args)
            }
            syn::Expr::Call(c) => {
                let is_some = matches!(&*c.func, syn::Expr::Path(p) if p.path.segments.last().map_or(false, |s| s.ident == "Some"));
                if is_some && c.args.len() == 1 { Sym::SomeOf(Box::new(self.expr(&c.args[0], env))) } else { Sym::Unknown("call".into()) }
            }
            _ => Sym::Unknown("expression".into()),
        }
    }
}

// ------------------------------------------------------------------------------------------------
// hops and paths

#[derive(Clone, Debug)]
enum Hop { Field(String), Opt(bool, String), Choice(usize, bool, String), Iter(String), Bad(String) }

/// the hops `s` performs starting from hole `root`; a trailing tuple is returned separately
fn hops(s: &Sym, root: usize, out: &mut Vec<Hop>) -> Option<Vec<Sym>> {
    match s {
        Sym::Hole(h) => { if *h != root { out.push(Hop::Bad("foreign-variable".into())); } None }
        Sym::Deref(x) => hops(x, root, out),
        Sym::Field(x, f) => { let t = hops(x, root, out); if t.is_some() { out.push(Hop::Bad("field-of-tuple".into())); } out.push(Hop::Field(f.clone())); None }
        Sym::Tuple(v) => Some(v.clone()),
        Sym::Method(recv, name, args) => {
            // Option chains:  R.as_ref().map(c)[.flatten()]   R._k().map(c)[.flatten()]   (.and_then(|r| Some(..)) = .map)
            // Vec chain:      R.iter().map(c).collect()
            let (inner, flat) = if name == "flatten" { (&**recv, true) } else { (s, false) };
            if let Sym::Method(r2, n2, a2) = inner {
                if n2 == "collect" {
                    if let Sym::Method(r3, n3, a3) = &**r2 {
                        if n3 == "map" {
                            if let (Sym::Method(r4, n4, _), Some(Arg::Closure(h, body))) = (&**r3, a3.get(0)) {
                                if n4 == "iter" && !flat {
                                    if hops(r4, root, out).is_some() { out.push(Hop::Bad("iter-of-tuple".into())); }
                                    // the element closure starts at the `.matched` field of `Skipped`
                                    let mut ok = true;
                                    let b2 = strip_matched(body, *h, &mut ok);
                                    out.push(if ok { Hop::Iter(path(&b2, *h)) } else { Hop::Bad("element-used-without-matched".into()) });
                                    return None;
                                }
                            }
                        }
                    }
                }
                let closure = match (n2.as_str(), a2.get(0)) {
                    ("map", Some(Arg::Closure(h, body))) => Some((*h, (**body).clone())),
                    ("and_then", Some(Arg::Closure(h, body))) => match &**body { Sym::SomeOf(b) => Some((*h, (**b).clone())), _ => None },
                    _ => None,
                };
                if let (Some((h, body)), Sym::Method(r3, n3, _)) = (closure, &**r2) {
                    let inner_path = path(&body, h);
                    if n3 == "as_ref" {
                        if hops(r3, root, out).is_some() { out.push(Hop::Bad("option-of-tuple".into())); }
                        out.push(Hop::Opt(flat, inner_path));
                        return None;
                    }
                    if let Some(k) = n3.strip_prefix('_').and_then(|d| d.parse::<usize>().ok()) {
                        if hops(r3, root, out).is_some() { out.push(Hop::Bad("choice-of-tuple".into())); }
                        out.push(Hop::Choice(k, flat, inner_path));
                        return None;
                    }
                }
            }
            out.push(Hop::Bad(format!("method-{}", name)));
            None
        }
        Sym::SelfVal => { out.push(Hop::Bad("self".into())); None }
        Sym::SomeOf(_) => { out.push(Hop::Bad("Some".into())); None }
        Sym::Unknown(w) => { out.push(Hop::Bad(w.clone())); None }
    }
}

/// replace `hole.matched` by `hole`; `ok` is cleared when the hole is used in any other way
fn strip_matched(s: &Sym, h: usize, ok: &mut bool) -> Sym {
    match s {
        Sym::Field(x, f) if f == "matched" && matches!(**x, Sym::Hole(k) if k == h) => Sym::Hole(h),
        Sym::Hole(k) => { if *k == h { *ok = false; } s.clone() }
        Sym::Field(x, f) => Sym::Field(Box::new(strip_matched(x, h, ok)), f.clone()),
        Sym::Deref(x) => Sym::Deref(Box::new(strip_matched(x, h, ok))),
        Sym::SomeOf(x) => Sym::SomeOf(Box::new(strip_matched(x, h, ok))),
        Sym::Tuple(v) => Sym::Tuple(v.iter().map(|x| strip_matched(x, h, ok)).collect()),
        Sym::Method(r, n, a) => Sym::Method(Box::new(strip_matched(r, h, ok)), n.clone(), a.iter().map(|x| match x {
            Arg::Closure(k, b) => Arg::Closure(*k, Box::new(strip_matched(b, h, ok))),
            Arg::Other => Arg::Other,
        }).collect()),
        _ => s.clone(),
    }
}

fn wrap_hops(hs: &[Hop], tail: String) -> String {
    // read the hop list as getter constructors, outermost first
    let mut k = 0;
    let mut open = 0;
    let mut s = String::new();
    while k < hs.len() {
        match &hs[k] {
            Hop::Field(f) if f == "content" => {
                if k + 2 < hs.len() && matches!(&hs[k + 1], Hop::Field(i) if i.parse::<usize>().is_ok()) && matches!(&hs[k + 2], Hop::Field(m) if m == "matched") {
                    if let Hop::Field(i) = &hs[k + 1] { s.push_str(&format!("(seq {} ", i)); }
                    open += 1; k += 3; continue;
                }
                if k + 1 < hs.len() {
                    if let Hop::Iter(p) = &hs[k + 1] {
                        if k + 2 != hs.len() { return format!("(unknown hops-after-iteration)"); }
                        s.push_str(&format!("(rep {})", p));
                        if tail != "(rule)" { return "(unknown tuple-after-iteration)".into(); }
                        return s + &")".repeat(open);
                    }
                }
                s.push_str("(content "); open += 1; k += 1;
            }
            Hop::Opt(flat, p) | Hop::Choice(_, flat, p) => {
                if k + 1 != hs.len() || tail != "(rule)" { return "(unknown hops-after-option)".into(); }
                match &hs[k] {
                    Hop::Opt(..) => s.push_str(&format!("(opt {} {})", *flat as u8, p)),
                    Hop::Choice(i, ..) => s.push_str(&format!("(choice {} {} {})", i, *flat as u8, p)),
                    _ => {}
                }
                return s + &")".repeat(open);
            }
            Hop::Field(f) => return format!("(unknown field-{})", f),
            Hop::Iter(_) => return "(unknown iteration-without-content)".into(),
            Hop::Bad(w) => return format!("(unknown {})", w),
        }
    }
    s + &tail + &")".repeat(open)
}

fn path(s: &Sym, root: usize) -> String {
    let mut hs = vec![];
    match hops(s, root, &mut hs) {
        None => wrap_hops(&hs, "(rule)".into()),
        Some(comps) => {
            // hops in front of a tuple are already part of every component (they were evaluated inside each)
            if !hs.is_empty() { return "(unknown hops-before-tuple-value)".into(); }
            let parts: Vec<String> = comps.iter().map(|c| path(c, root)).collect();
            format!("(tuple {})", parts.join(" "))
        }
    }
}

fn ty(t: &syn::Type) -> String {
    match t {
        syn::Type::Reference(r) => match &*r.elem {
            syn::Type::Path(p) => format!("(ref {})", p.path.segments.last().map_or("?".into(), |s| plain(&s.ident))),
            _ => "(unknown ref)".into(),
        },
        syn::Type::Paren(p) => ty(&p.elem),
        syn::Type::Group(g) => ty(&g.elem),
        syn::Type::Tuple(t) => format!("(tuple {})", t.elems.iter().map(ty).collect::<Vec<_>>().join(" ")),
        syn::Type::Path(p) => {
            let last = match p.path.segments.last() { Some(l) => l, None => return "(unknown path)".into() };
            let arg = match &last.arguments {
                syn::PathArguments::AngleBracketed(a) if a.args.len() == 1 => match &a.args[0] { syn::GenericArgument::Type(t) => Some(ty(t)), _ => None },
                _ => None,
            };
            match (last.ident.to_string().as_str(), arg) {
                ("Option", Some(a)) => format!("(opt {})", a),
                ("Vec", Some(a)) => format!("(vec {})", a),
                (n, _) => format!("(unknown type-{})", n),
            }
        }
        _ => "(unknown type)".into(),
    }
}

struct V { out: Vec<String> }
impl<'ast> Visit<'ast> for V {
    fn visit_item_impl(&mut self, i: &'ast syn::ItemImpl) {
        if i.trait_.is_none() {
            if let syn::Type::Path(p) = &*i.self_ty {
                let name = plain(&p.path.segments.last().unwrap().ident);
                for it in &i.items {
                    if let syn::ImplItem::Fn(f) = it {
                        let t = match &f.sig.output { syn::ReturnType::Type(_, t) => ty(t), _ => "(unknown unit)".into() };
                        // `{ let res = <&self.content | &*self.content>; <path> }`
                        let mut ev = Ev { next_hole: 1 };
                        let (boxed, p) = match f.block.stmts.first() {
                            Some(syn::Stmt::Local(l)) => {
                                let var = match &l.pat { syn::Pat::Ident(p) => Some(plain(&p.ident)), _ => None };
                                let init = l.init.as_ref().map(|i| ev.expr(&i.expr, &Env::new()));
                                let boxed = match &init {
                                    Some(Sym::Deref(x)) if matches!(&**x, Sym::Field(s, c) if c == "content" && matches!(**s, Sym::SelfVal)) => "1",
                                    Some(Sym::Field(s, c)) if c == "content" && matches!(**s, Sym::SelfVal) => "0",
                                    _ => "?",
                                };
                                let mut env = Env::new();
                                if let Some(v) = var { env.insert(v, Sym::Hole(0)); }
                                let rest = syn::Block { brace_token: f.block.brace_token, stmts: f.block.stmts[1..].to_vec() };
                                let s = ev.block(&rest, &env);
                                (boxed, path(&s, 0))
                            }
                            _ => ("?", "(unknown body)".to_string()),
                        };
                        self.out.push(format!("{} @@ {} @@ {} @@ {} @@ {}", name, plain(&f.sig.ident), t, boxed, p));
                    }
                }
            }
        }
        syn::visit::visit_item_impl(self, i);
    }
}

fn main() {
    std::panic::set_hook(Box::new(|_| {}));
    let out = io::stdout();
    let mut out = out.lock();
    for line in io::stdin().lock().lines() {
        let line = line.unwrap();
        let f: Vec<&str> = line.split('\t').collect();
        if f.len() != 3 { continue; }
        let (gid, variant, g) = (f[0].to_string(), f[1].to_string(), unhex(f[2]));
        let v2 = variant.clone();
        let res = std::panic::catch_unwind(move || {
            let ts = match v2.as_str() {
                "raw" => pest_typed_generator::derive_typed_parser(quote! { #[grammar_inline = #g] #[emit_rule_reference] #[pest_optimizer = false] #[no_warnings] struct P; }, false, true),
                "optbox" => pest_typed_generator::derive_typed_parser(quote! { #[grammar_inline = #g] #[emit_rule_reference] #[box_only_if_needed] #[no_warnings] struct P; }, false, true),
                "rawbox" => pest_typed_generator::derive_typed_parser(quote! { #[grammar_inline = #g] #[emit_rule_reference] #[pest_optimizer = false] #[box_only_if_needed] #[no_warnings] struct P; }, false, true),
                _ => pest_typed_generator::derive_typed_parser(quote! { #[grammar_inline = #g] #[emit_rule_reference] #[no_warnings] struct P; }, false, true),
            };
            let file: syn::File = syn::parse2(ts).map_err(|e| format!("generated code does not parse: {}", e))?;
            let mut v = V { out: vec![] };
            v.visit_file(&file);
            Ok::<Vec<String>, String>(v.out)
        });
        match res {
            Ok(Ok(v)) => writeln!(out, "{}\t{}\tOK\t{}", gid, variant, v.join(" ## ")).unwrap(),
            Ok(Err(e)) => writeln!(out, "{}\t{}\tERR\t{}", gid, variant, hex(&e)).unwrap(),
            Err(_) => writeln!(out, "{}\t{}\tERR\t{}", gid, variant, hex("generator panicked")).unwrap(),
        }
    }
}
