//! acc_arity: asks the generator under test (as a library) which `SeqN` / `ChoiceN` types a grammar's
//! generated `generics` module DEFINES by expanding `pest_typed::seq!` / `pest_typed::choices!` in place
//! ("local") and which it re-exports from the runtime crate ("lib").  The accessor harness implements its
//! show-trait for the local ones in the generated binary; the library ones are covered by acc_common itself.
//!
//! stdin : `<gid>\t<hex grammar>` per line
//! stdout: `<gid>\tOK\tlocal=Seq13,Choice14\tlib=Seq2,Choice3` or `<gid>\tPANIC`
use std::io::{self, BufRead, Write};
use std::str::FromStr;

fn unhex(s: &str) -> String {
    if s == "-" {
        return String::new();
    }
    let b: Vec<u8> = (0..s.len()).step_by(2).map(|i| u8::from_str_radix(&s[i..i + 2], 16).unwrap()).collect();
    String::from_utf8(b).unwrap()
}
fn arity_name(t: &str) -> Option<String> {
    for p in ["Seq", "Choice"] {
        if let Some(r) = t.strip_prefix(p) {
            if !r.is_empty() && r.chars().all(|c| c.is_ascii_digit()) {
                return Some(t.to_string());
            }
        }
    }
    None
}
fn main() {
    std::panic::set_hook(Box::new(|_| {}));
    let out = io::stdout();
    let mut out = out.lock();
    for line in io::stdin().lock().lines() {
        let line = line.unwrap();
        let f: Vec<&str> = line.split('\t').collect();
        if f.len() < 2 {
            continue;
        }
        let text = unhex(f[1]);
        let src = format!("#[grammar_inline = {:?}]\n#[no_warnings]\nstruct P;", text);
        let res = std::panic::catch_unwind(move || {
            let input = proc_macro2::TokenStream::from_str(&src).expect("derive input does not lex");
            pest_typed_generator::derive_typed_parser(input, false, false).to_string()
        });
        match res {
            Ok(ts) => {
                let toks: Vec<&str> = ts.split_whitespace().collect();
                let (mut local, mut lib) = (vec![], vec![]);
                for i in 0..toks.len() {
                    // `seq ! ( SeqN ,` / `choices ! ( ChoiceN ,`
                    if (toks[i] == "seq" || toks[i] == "choices") && toks.get(i + 1) == Some(&"!") {
                        let mut j = i + 2;
                        while j < toks.len() && (toks[j] == "(" || toks[j] == "{" || toks[j] == "[") {
                            j += 1;
                        }
                        if let Some(n) = toks.get(j).and_then(|t| arity_name(t.trim_start_matches(|c| c == '(' || c == '{' || c == '[').trim_end_matches(','))) {
                            if !local.contains(&n) {
                                local.push(n);
                            }
                        }
                    }
                    // `pub use <path> :: SeqN ;`
                    if toks[i] == "use" {
                        let mut j = i + 1;
                        while j < toks.len() && toks[j] != ";" && j < i + 40 {
                            j += 1;
                        }
                        if j < toks.len() && j >= 1 {
                            if let Some(n) = arity_name(toks[j - 1]) {
                                if !lib.contains(&n) {
                                    lib.push(n);
                                }
                            }
                        }
                    }
                }
                writeln!(out, "{}\tOK\tlocal={}\tlib={}", f[0], local.join(","), lib.join(",")).unwrap();
            }
            Err(_) => writeln!(out, "{}\tPANIC", f[0]).unwrap(),
        }
    }
}
