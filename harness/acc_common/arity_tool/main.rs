//! acc_arity: asks the generator under test (as a library) what a grammar's generated module needs from the
//! accessor harness:
//!   used  = every `generics :: SeqN` / `generics :: ChoiceN` named in the emitted code,
//!   lib   = those of them the `generics` module re-exports with a `use` item (types of the runtime crate),
//!   local = used − lib (types the module defines itself, by whatever macro): the harness implements its
//!           show-trait for these in the generated binary,
//!   uni   = the Unicode property types the module re-exports (`pub mod unicode { pub use …::{A, B}; }`).
//! Nothing is read from the sources of /repo; no macro name is assumed.
//!
//! stdin : `<gid>\t<hex grammar>\t<hex derive attributes or ->` per line
//! stdout: `<gid>\tOK\tlocal=Seq13,Choice14\tlib=Seq2,Choice3\tuni=LETTER,HAN` or `<gid>\tPANIC`
use std::io::{self, BufRead, Write};
use std::str::FromStr;

fn unhex(s: &str) -> String {
    if s == "-" {
        return String::new();
    }
    let b: Vec<u8> = (0..s.len()).step_by(2).map(|i| u8::from_str_radix(&s[i..i + 2], 16).unwrap()).collect();
    String::from_utf8(b).unwrap()
}
fn arity_name(t: &str) -> Option<String> {
    for p in ["Seq", "Choice"] {
        if let Some(r) = t.strip_prefix(p) {
            if !r.is_empty() && r.chars().all(|c| c.is_ascii_digit()) {
                return Some(t.to_string());
            }
        }
    }
    None
}
/// identifiers and punctuation of a token stream's text, one per element
fn lex(s: &str) -> Vec<String> {
    let mut out = vec![];
    let mut cur = String::new();
    for c in s.chars() {
        if c.is_alphanumeric() || c == '_' || c == '#' {
            cur.push(c);
        } else {
            if !cur.is_empty() {
                out.push(std::mem::take(&mut cur));
            }
            if !c.is_whitespace() {
                out.push(c.to_string());
            }
        }
    }
    if !cur.is_empty() {
        out.push(cur);
    }
    out
}
fn push(v: &mut Vec<String>, x: String) {
    if !v.contains(&x) {
        v.push(x);
    }
}
fn main() {
    std::panic::set_hook(Box::new(|_| {}));
    let out = io::stdout();
    let mut out = out.lock();
    for line in io::stdin().lock().lines() {
        let line = line.unwrap();
        let f: Vec<&str> = line.split('\t').collect();
        if f.len() < 2 {
            continue;
        }
        let text = unhex(f[1]);
        let attrs = unhex(f.get(2).copied().unwrap_or("-"));
        let src = format!("#[grammar_inline = {:?}]\n{}\n#[no_warnings]\nstruct P;", text, attrs);
        let res = std::panic::catch_unwind(move || {
            let input = proc_macro2::TokenStream::from_str(&src).expect("derive input does not lex");
            pest_typed_generator::derive_typed_parser(input, false, false).to_string()
        });
        match res {
            Ok(ts) => {
                let toks = lex(&ts);
                let (mut used, mut lib, mut uni) = (vec![], vec![], vec![]);
                let mut i = 0;
                while i < toks.len() {
                    // `generics :: SeqN`
                    if toks[i] == "generics" && toks.get(i + 1).map(|s| s.as_str()) == Some(":") && toks.get(i + 2).map(|s| s.as_str()) == Some(":") {
                        if let Some(n) = toks.get(i + 3).and_then(|t| arity_name(t)) {
                            push(&mut used, n);
                        }
                    }
                    // `use <path> ;` whose last segment (or a member of a `{..}` group) is SeqN / ChoiceN
                    if toks[i] == "use" {
                        let mut j = i + 1;
                        while j < toks.len() && toks[j] != ";" {
                            if let Some(n) = arity_name(&toks[j]) {
                                let nxt = toks.get(j + 1).map(|s| s.as_str());
                                if nxt == Some(";") || nxt == Some(",") || nxt == Some("}") {
                                    push(&mut lib, n);
                                }
                            }
                            j += 1;
                        }
                    }
                    // `mod unicode { ... }`
                    if toks[i] == "mod" && toks.get(i + 1).map(|s| s.as_str()) == Some("unicode") && toks.get(i + 2).map(|s| s.as_str()) == Some("{") {
                        let mut depth = 0i32;
                        let mut j = i + 2;
                        while j < toks.len() {
                            if toks[j] == "{" {
                                depth += 1;
                            } else if toks[j] == "}" {
                                depth -= 1;
                                if depth == 0 {
                                    break;
                                }
                            } else if toks[j].len() > 1 && toks[j].chars().all(|c| c.is_ascii_uppercase() || c.is_ascii_digit() || c == '_') && toks[j].chars().next().unwrap().is_ascii_uppercase() {
                                push(&mut uni, toks[j].clone());
                            }
                            j += 1;
                        }
                    }
                    i += 1;
                }
                let local: Vec<String> = used.iter().filter(|u| !lib.contains(u)).cloned().collect();
                let libused: Vec<String> = lib.clone();
                writeln!(out, "{}\tOK\tlocal={}\tlib={}\tuni={}", f[0], local.join(","), libused.join(","), uni.join(",")).unwrap();
            }
            Err(_) => writeln!(out, "{}\tPANIC", f[0]).unwrap(),
        }
    }
}
