// Generates `AccShow` impls for every Unicode property node of the pest_typed under test
// (main/src/predefined_node/unicode.rs: one `unicode!(NAME);` per property).
use std::{env, fs, path::Path};
fn main() {
    let dir = env::var("CARGO_MANIFEST_DIR").unwrap();
    let toml = fs::read_to_string(Path::new(&dir).join("Cargo.toml")).unwrap();
    let line = toml.lines().find(|l| l.trim_start().starts_with("pest_typed ")).expect("pest_typed dependency");
    let path = line.split("path").nth(1).and_then(|r| r.split('"').nth(1)).expect("path of pest_typed");
    let src_path = Path::new(path).join("src/predefined_node/unicode.rs");
    println!("cargo:rerun-if-changed={}", src_path.display());
    println!("cargo:rerun-if-changed=build.rs");
    let src = fs::read_to_string(&src_path).unwrap_or_default();
    let mut names = vec![];
    for l in src.lines() {
        if let Some(r) = l.trim().strip_prefix("unicode!(") {
            if let Some(n) = r.strip_suffix(");") {
                if n.chars().all(|c| c.is_ascii_alphanumeric() || c == '_') && !n.is_empty() {
                    names.push(n.to_string());
                }
            }
        }
    }
    let out = Path::new(&env::var("OUT_DIR").unwrap()).join("uni.rs");
    fs::write(out, format!("acc_unicode!({});\n", names.join(", "))).unwrap();
}
