// Generates `AccShow` impls for every Unicode property node of the pest_typed under test
// (main/src/predefined_node/unicode.rs: one `unicode!(NAME);` per property).
use std::{env, fs, path::Path};
fn main() {
    let dir = env::var("CARGO_MANIFEST_DIR").unwrap();
    let toml = fs::read_to_string(Path::new(&dir).join("Cargo.toml")).unwrap();
    let line = toml.lines().find(|l| l.trim_start().starts_with("pest_typed ")).expect("pest_typed dependency");
    let path = line.split("path").nth(1).and_then(|r| r.split('"').nth(1)).expect("path of pest_typed");
    let src_path = Path::new(path).join("src/predefined_node/unicode.rs");
    println!("cargo:rerun-if-changed={}", src_path.display());
    println!("cargo:rerun-if-changed=build.rs");
    let src = fs::read_to_string(&src_path).unwrap_or_default();
    let mut names = vec![];
    for l in src.lines() {
        if let Some(r) = l.trim().strip_prefix("unicode!(") {
            if let Some(n) = r.strip_suffix(");") {
                if n.chars().all(|c| c.is_ascii_alphanumeric() || c == '_') && !n.is_empty() {
                    names.push(n.to_string());
                }
            }
        }
    }
    let out = Path::new(&env::var("OUT_DIR").unwrap()).join("uni.rs");
    fs::write(out, format!("acc_unicode!({});\n", names.join(", "))).unwrap();

    // `AccShow` for every arity the runtime crate itself provides: one `seq!(SeqN, N, …)` /
    // `choices!(ChoiceN, choiceN, N, …)` invocation per arity in sequence.rs / choices.rs.
    let mut arities = String::new();
    for (file, mac, prefix) in [("src/sequence.rs", "seq!(", "Seq"), ("src/choices.rs", "choices!(", "Choice")] {
        let p = Path::new(path).join(file);
        println!("cargo:rerun-if-changed={}", p.display());
        let text = fs::read_to_string(&p).unwrap_or_default();
        let code: Vec<&str> = text.lines().map(|l| l.split("//").next().unwrap_or("")).collect();
        let src: String = code.join(" ").split_whitespace().collect::<Vec<_>>().join("");
        let mut seen = vec![];
        let mut rest = src.as_str();
        while let Some(i) = rest.find(mac) {
            // an invocation at item level is preceded by `;`, `}` or nothing (not by `macro_rules!` text like `$crate::`)
            let before = rest[..i].chars().last();
            rest = &rest[i + mac.len()..];
            if !(before.is_none() || before == Some(';') || before == Some('}')) {
                continue;
            }
            if let Some(r) = rest.strip_prefix(prefix) {
                let digits: String = r.chars().take_while(|c| c.is_ascii_digit()).collect();
                if let Ok(n) = digits.parse::<usize>() {
                    if n >= 2 && r[digits.len()..].starts_with(',') && !seen.contains(&n) {
                        seen.push(n);
                    }
                }
            }
        }
        for n in seen {
            if prefix == "Seq" {
                let args: Vec<String> = (0..n).map(|k| format!("(T{}, {}),", k, k)).collect();
                arities.push_str(&format!("acc_seq!(Seq{}, {}, {});\n", n, n, args.join(" ")));
            } else {
                let args: Vec<String> = (0..n - 1).map(|k| format!("(T{}, _{}, {}),", k, k, k)).collect();
                arities.push_str(&format!("acc_choice!(Choice{}, {}, {} ; (T{}, _{}, {}));\n", n, n, args.join(" "), n - 1, n - 1, n - 1));
            }
        }
    }
    fs::write(Path::new(&env::var("OUT_DIR").unwrap()).join("arities.rs"), arities).unwrap();
}
