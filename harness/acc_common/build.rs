// Generates the `AccShow` impls for the types of the runtime crate that the workspace needs:
//   ACC_LIB_ARITIES = "Seq2,Seq3,...,Choice12"   library SeqN / ChoiceN (what the generator re-exports for the corpus
//                                                grammars + what the raw instantiations name), and
//   ACC_UNICODE     = "LETTER,HAN,..."           Unicode property node types the corpus grammars use.
// Both lists are computed by harness/accgen.py from the GENERATOR'S OUTPUT (acc_common/arity_tool), not from the
// sources of /repo.  Without the variables (a build outside accgen): arities 2..12, a few properties.
use std::{env, fs, path::Path};
fn main() {
    println!("cargo:rerun-if-changed=build.rs");
    println!("cargo:rerun-if-env-changed=ACC_LIB_ARITIES");
    println!("cargo:rerun-if-env-changed=ACC_UNICODE");
    let default_ar: String = (2..=12).map(|n| format!("Seq{},Choice{}", n, n)).collect::<Vec<_>>().join(",");
    let ar = env::var("ACC_LIB_ARITIES").unwrap_or(default_ar);
    let uni = env::var("ACC_UNICODE").unwrap_or_else(|_| "LETTER,NUMBER,ALPHABETIC".to_string());
    let ok = |n: &str| !n.is_empty() && n.chars().all(|c| c.is_ascii_alphanumeric() || c == '_');
    let names: Vec<&str> = uni.split(',').filter(|n| ok(n)).collect();
    let out_dir = env::var("OUT_DIR").unwrap();
    fs::write(Path::new(&out_dir).join("uni.rs"), if names.is_empty() { String::new() } else { format!("acc_unicode!({});\n", names.join(", ")) }).unwrap();
    let mut arities = String::new();
    let mut seen: Vec<&str> = vec![];
    for a in ar.split(',') {
        if seen.contains(&a) {
            continue;
        }
        seen.push(a);
        if let Some(n) = a.strip_prefix("Seq").and_then(|d| d.parse::<usize>().ok()) {
            let args: Vec<String> = (0..n).map(|k| format!("(T{}, {}),", k, k)).collect();
            arities.push_str(&format!("acc_seq!(Seq{}, {}, {});\n", n, n, args.join(" ")));
        } else if let Some(n) = a.strip_prefix("Choice").and_then(|d| d.parse::<usize>().ok()) {
            if n >= 2 {
                let args: Vec<String> = (0..n - 1).map(|k| format!("(T{}, _{}, {}),", k, k, k)).collect();
                arities.push_str(&format!("acc_choice!(Choice{}, {}, {} ; (T{}, _{}, {}));\n", n, n, args.join(" "), n - 1, n - 1, n - 1));
            }
        }
    }
    fs::write(Path::new(&out_dir).join("arities.rs"), arities).unwrap();
}
