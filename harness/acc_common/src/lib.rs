//! Runner code for the accessor / traversal / eq-hash checks (properties C17, C15, C18).
//!
//! * `AccShow` prints a parsed value THROUGH THE PUBLIC ACCESSORS of the runtime types (never through
//!   `Debug`): `_k()`, `if_then/else_if/else_then`, `reference()`, `consume()`, `consume_if_then`,
//!   `match_choices!`, `get_matched/as_ref/into_matched/get_all/into_all`, `iter_matched/
//!   into_iter_matched/iter_all/into_iter_all`, the `content` / `span` fields of the leaves.
//!   The output is an S-expression (atoms without blanks, texts hex-encoded) that the Lean driver
//!   reproduces from `Model/Access.lean`.
//! * `run_trav_*` prints what `PairTree` / `Pair` report (C15).
//! * `run_eqh` parses every sub-range of a string and prints the `==` matrix, hash classes, Debug
//!   classes, clone / repeat / history / other-object bits (C18).
#![allow(warnings)]
use pest_typed::{
    iterators::{Pair, PairTree, Pairs, ThinToken, Token},
    predefined_node::*,
    tracker::Tracker,
    AsInput, Input, ParsableTypedNode, Position, RuleType, Span, Stack, StringArrayWrapper, StringWrapper, TypedNode,
};
use std::cell::RefCell;
use std::fmt::Write as _;
pub use vh_common::{hex, unhex, CaseFn};

/// `match_choices!` expands to `generics::ChoiceN::_k(..)`: the library arities live here.
pub mod generics {
    pub use pest_typed::choices::*;
    pub use pest_typed::sequence::*;
}

pub trait AccShow {
    fn acc(&self, out: &mut String);
}
pub fn show<T: AccShow + ?Sized>(t: &T) -> String {
    let mut s = String::new();
    t.acc(&mut s);
    s
}
pub fn span_atom(out: &mut String, tag: &str, sp: &Span<'_>) {
    let _ = write!(out, "({} {} {} {})", tag, sp.start(), sp.end(), hex(sp.as_str()));
}
pub fn pm(b: bool) -> char {
    if b {
        '+'
    } else {
        '-'
    }
}

// ------------------------------------------------------------------------------------------------
// leaves

impl<T: StringWrapper + 'static> AccShow for Str<T> {
    fn acc(&self, out: &mut String) {
        out.push_str("(str)");
    }
}
impl<'i, T: StringWrapper> AccShow for Insens<'i, T> {
    fn acc(&self, out: &mut String) {
        let _ = write!(out, "(ins {})", hex(self.content));
    }
}
impl<const MIN: char, const MAX: char> AccShow for CharRange<MIN, MAX> {
    fn acc(&self, out: &mut String) {
        let _ = write!(out, "(chr {})", self.content as u32);
    }
}
impl AccShow for ANY {
    fn acc(&self, out: &mut String) {
        let _ = write!(out, "(any {})", self.content as u32);
    }
}
macro_rules! acc_unicode {
    ($($p:ident),*) => { $(
        impl AccShow for pest_typed::predefined_node::unicode::$p {
            fn acc(&self, out: &mut String) {
                let _ = write!(out, "(uni {} {})", stringify!($p), self.content as u32);
            }
        }
    )* };
}
include!(concat!(env!("OUT_DIR"), "/uni.rs"));
impl AccShow for SOI {
    fn acc(&self, out: &mut String) {
        out.push_str("(soi)");
    }
}
impl AccShow for EOI {
    fn acc(&self, out: &mut String) {
        out.push_str("(eoi)");
    }
}
impl AccShow for NEWLINE {
    fn acc(&self, out: &mut String) {
        let k = match self.content {
            NewLineType::CRLF => 0,
            NewLineType::LF => 1,
            NewLineType::CR => 2,
        };
        let _ = write!(out, "(nl {})", k);
    }
}
impl<'i, S: StringArrayWrapper> AccShow for Skip<'i, S> {
    fn acc(&self, out: &mut String) {
        span_atom(out, "until", &self.span);
    }
}
impl<'i, const N: usize> AccShow for SkipChar<'i, N> {
    fn acc(&self, out: &mut String) {
        span_atom(out, "skipn", &self.span);
    }
}
impl<'i> AccShow for PEEK<'i> {
    fn acc(&self, out: &mut String) {
        span_atom(out, "peek", &self.span);
    }
}
impl<'i> AccShow for PEEK_ALL<'i> {
    fn acc(&self, out: &mut String) {
        span_atom(out, "peekall", &self.span);
    }
}
impl<'i> AccShow for POP<'i> {
    fn acc(&self, out: &mut String) {
        span_atom(out, "pop", &self.span);
    }
}
impl<'i> AccShow for POP_ALL<'i> {
    fn acc(&self, out: &mut String) {
        span_atom(out, "popall", &self.span);
    }
}
impl AccShow for DROP {
    fn acc(&self, out: &mut String) {
        out.push_str("(drop)");
    }
}
impl<const A: i32> AccShow for PeekSlice1<A> {
    fn acc(&self, out: &mut String) {
        out.push_str("(slice)");
    }
}
impl<const A: i32, const B: i32> AccShow for PeekSlice2<A, B> {
    fn acc(&self, out: &mut String) {
        out.push_str("(slice)");
    }
}
impl<'i> AccShow for Empty<'i> {
    fn acc(&self, out: &mut String) {
        out.push_str("(empty)");
    }
}
impl<'i> AccShow for AlwaysFail<'i> {
    fn acc(&self, out: &mut String) {
        out.push_str("(alwaysfail)");
    }
}
impl<T: AccShow> AccShow for Positive<T> {
    fn acc(&self, out: &mut String) {
        out.push_str("(pos ");
        self.content.acc(out);
        out.push(')');
    }
}
impl<T> AccShow for Negative<T> {
    fn acc(&self, out: &mut String) {
        out.push_str("(neg)");
    }
}
impl<T: AccShow> AccShow for Push<T> {
    fn acc(&self, out: &mut String) {
        out.push_str("(push ");
        self.content.acc(out);
        out.push(')');
    }
}
impl<T: AccShow> AccShow for Option<T> {
    fn acc(&self, out: &mut String) {
        match self {
            None => out.push_str("(none)"),
            Some(x) => {
                out.push_str("(some ");
                x.acc(out);
                out.push(')');
            }
        }
    }
}
impl<T: AccShow> AccShow for Box<T> {
    fn acc(&self, out: &mut String) {
        self.as_ref().acc(out)
    }
}
impl<T: AccShow, const N: usize> AccShow for [T; N] {
    fn acc(&self, out: &mut String) {
        out.push_str("(array");
        for x in self.iter() {
            out.push(' ');
            x.acc(out);
        }
        out.push(')');
    }
}
impl<A: AccShow, B: AccShow> AccShow for (A, B) {
    fn acc(&self, out: &mut String) {
        out.push_str("(pair ");
        self.0.acc(out);
        out.push(' ');
        self.1.acc(out);
        out.push(')');
    }
}
impl<T: AccShow> AccShow for AtomicRepeat<T> {
    fn acc(&self, out: &mut String) {
        out.push_str("(arep");
        for x in self.content.iter() {
            out.push(' ');
            x.acc(out);
        }
        out.push(')');
    }
}
/// `Skipped { skipped, matched }` with the matched part replaced by a flag (`ok` = it IS the element
/// the matched-accessor returned).
pub fn skipped_atom<T, IG: AccShow, const SKIP: usize>(out: &mut String, s: &Skipped<T, IG, SKIP>, ok: bool) {
    let _ = write!(out, "(sk {}", SKIP);
    for x in s.skipped.iter() {
        out.push(' ');
        x.acc(out);
    }
    out.push(' ');
    out.push(pm(ok));
    out.push(')');
}
impl<T: AccShow, IG: AccShow, const SKIP: usize> AccShow for Skipped<T, IG, SKIP> {
    fn acc(&self, out: &mut String) {
        let _ = write!(out, "(skipped {}", SKIP);
        for x in self.skipped.iter() {
            out.push(' ');
            x.acc(out);
        }
        out.push(' ');
        self.matched.acc(out);
        out.push(')');
    }
}

// ------------------------------------------------------------------------------------------------
// repetitions

pub fn rep_acc<'a, T: AccShow + PartialEq + 'a, IG: AccShow + PartialEq + 'a, const SKIP: usize>(
    out: &mut String,
    iter_matched: impl Iterator<Item = &'a T>,
    into_iter_matched: impl Iterator<Item = T>,
    iter_all: impl Iterator<Item = &'a Skipped<T, IG, SKIP>>,
    into_iter_all: impl Iterator<Item = Skipped<T, IG, SKIP>>,
) {
    let m: Vec<&T> = iter_matched.collect();
    out.push_str("(rep (m");
    for x in &m {
        out.push(' ');
        x.acc(out);
    }
    out.push(')');
    let im: Vec<T> = into_iter_matched.collect();
    let im_ok = im.len() == m.len() && im.iter().zip(m.iter()).all(|(a, b)| a == *b);
    let _ = write!(out, " (im {})", pm(im_ok));
    let all: Vec<&Skipped<T, IG, SKIP>> = iter_all.collect();
    out.push_str(" (all");
    for (k, s) in all.iter().enumerate() {
        out.push(' ');
        skipped_atom(out, *s, k < m.len() && std::ptr::eq(&s.matched, m[k]));
    }
    out.push(')');
    let ia: Vec<Skipped<T, IG, SKIP>> = into_iter_all.collect();
    let ia_ok = ia.len() == all.len() && ia.iter().zip(all.iter()).all(|(a, b)| a == *b);
    let _ = write!(out, " (ia {})", pm(ia_ok));
    out.push(')');
}
impl<T: AccShow + Clone + PartialEq, IG: AccShow + Clone + PartialEq, const SKIP: usize, const MIN: usize> AccShow
    for RepeatMin<Skipped<T, IG, SKIP>, MIN>
{
    fn acc(&self, out: &mut String) {
        rep_acc(out, self.iter_matched(), self.clone().into_iter_matched(), self.iter_all(), self.clone().into_iter_all())
    }
}
impl<T: AccShow + Clone + PartialEq, IG: AccShow + Clone + PartialEq, const SKIP: usize, const MIN: usize, const MAX: usize> AccShow
    for RepeatMinMax<Skipped<T, IG, SKIP>, MIN, MAX>
{
    fn acc(&self, out: &mut String) {
        rep_acc(out, self.iter_matched(), self.clone().into_iter_matched(), self.iter_all(), self.clone().into_iter_all())
    }
}

// ------------------------------------------------------------------------------------------------
// sequences: every accessor of `seq!`.  The `*_body!` macros render a VALUE through its public API and
// need the arity only (no impl on the type): the generated code uses them for arities whose types may
// live in the generated module or in the library, depending on the tree under test.

#[macro_export]
macro_rules! acc_seq_body {
    ($s:expr, $out:expr, $n:literal, $( $t:tt, )+ ) => {{
        let s = $s;
        let out: &mut String = $out;
        let m = s.get_matched();
        out.push_str(concat!("(seq ", stringify!($n), " (m"));
        $( out.push(' '); $crate::AccShow::acc(m.$t, out); )+
        out.push(')');
        let ar = s.as_ref();
        let ar_ok = true $(&& ::std::ptr::eq(ar.$t, m.$t))+;
        out.push_str(" (ar "); out.push($crate::pm(ar_ok)); out.push(')');
        let im = s.clone().into_matched();
        let im_ok = true $(&& &im.$t == m.$t)+;
        out.push_str(" (im "); out.push($crate::pm(im_ok)); out.push(')');
        let all = s.get_all();
        out.push_str(" (all");
        $( out.push(' '); $crate::skipped_atom(out, all.$t, ::std::ptr::eq(&all.$t.matched, m.$t)); )+
        out.push(')');
        let ia = s.clone().into_all();
        let ia_ok = true $(&& &ia.$t == all.$t)+;
        out.push_str(" (ia "); out.push($crate::pm(ia_ok)); out.push(')');
        out.push(')');
    }};
}

#[macro_export]
macro_rules! acc_seq {
    ($name:ident, $n:literal, $( ($T:ident, $t:tt), )+ ) => {
        impl<$($T: $crate::AccShow + Clone + PartialEq,)+ IG: $crate::AccShow + Clone + PartialEq, const SKIP: usize> $crate::AccShow
            for $name<$(::pest_typed::predefined_node::Skipped<$T, IG, SKIP>,)+>
        {
            fn acc(&self, out: &mut String) {
                $crate::acc_seq_body!(self, out, $n, $($t,)+);
            }
        }
    };
}

// ------------------------------------------------------------------------------------------------
// choices: every accessor of `choices!`, the four helper chains, `match_choices!`.
// Closure number k is the k-th closure handed to the chain / the k-th arm of `match_choices!`; accessor
// number k is the method `_k()`.  Nothing below assumes that the two numberings agree.

#[macro_export]
macro_rules! acc_choice_body {
    ($s:expr, $out:expr, $n:literal, ($v0:ident, $k0:literal), $( ($v:ident, $k:literal), )* ; ($vl:ident, $kl:literal)) => {{
        use ::std::fmt::Write as _;
        let s = $s;
        let out: &mut String = $out;
        out.push_str(concat!("(choice ", stringify!($n), " "));
        // every accessor
        out.push(if s.$v0().is_some() { '1' } else { '0' });
        $( out.push(if s.$v().is_some() { '1' } else { '0' }); )*
        out.push(if s.$vl().is_some() { '1' } else { '0' });
        // where the accessors say the payload lives, and what it looks like
        let mut addr: Option<*const ()> = None;
        let mut pdbg: Option<String> = None;
        if let Some(x) = s.$v0() { addr = Some(x as *const _ as *const ()); pdbg = Some(format!("{:?}", x)); }
        $( if let Some(x) = s.$v() { addr = Some(x as *const _ as *const ()); pdbg = Some(format!("{:?}", x)); } )*
        if let Some(x) = s.$vl() { addr = Some(x as *const _ as *const ()); pdbg = Some(format!("{:?}", x)); }
        let log = ::std::cell::RefCell::new(Vec::<(usize, bool)>::new());
        let dump = |out: &mut String, tag: &str| {
            let _ = write!(out, " ({}", tag);
            for (k, ok) in log.borrow().iter() { let _ = write!(out, " {}{}", k, $crate::pm(*ok)); }
            out.push(')');
            log.borrow_mut().clear();
        };
        // if_then(..).else_if(..)….else_then(..)
        let r_if: usize = s
            .if_then(|x| { log.borrow_mut().push(($k0, addr == Some(x as *const _ as *const ()))); $k0 })
            $( .else_if(|x| { log.borrow_mut().push(($k, addr == Some(x as *const _ as *const ()))); $k }) )*
            .else_then(|x| { log.borrow_mut().push(($kl, addr == Some(x as *const _ as *const ()))); $kl });
        dump(out, "if");
        // reference().else_if(..)….else_then(..)
        let r_rf: usize = s
            .reference()
            .else_if(|x| { log.borrow_mut().push(($k0, addr == Some(x as *const _ as *const ()))); $k0 })
            $( .else_if(|x| { log.borrow_mut().push(($k, addr == Some(x as *const _ as *const ()))); $k }) )*
            .else_then(|x| { log.borrow_mut().push(($kl, addr == Some(x as *const _ as *const ()))); $kl });
        dump(out, "rf");
        // clone().consume().else_if(..)…  (by value: compared with the accessor's payload through `{:?}`)
        let r_co: usize = s
            .clone()
            .consume()
            .else_if(|x| { log.borrow_mut().push(($k0, pdbg == Some(format!("{:?}", x)))); $k0 })
            $( .else_if(|x| { log.borrow_mut().push(($k, pdbg == Some(format!("{:?}", x)))); $k }) )*
            .else_then(|x| { log.borrow_mut().push(($kl, pdbg == Some(format!("{:?}", x)))); $kl });
        dump(out, "co");
        // clone().consume_if_then(..).else_if(..)…
        let r_ci: usize = s
            .clone()
            .consume_if_then(|x| { log.borrow_mut().push(($k0, pdbg == Some(format!("{:?}", x)))); $k0 })
            $( .else_if(|x| { log.borrow_mut().push(($k, pdbg == Some(format!("{:?}", x)))); $k }) )*
            .else_then(|x| { log.borrow_mut().push(($kl, pdbg == Some(format!("{:?}", x)))); $kl });
        dump(out, "ci");
        let _ = write!(out, " (ret {} {} {} {})", r_if, r_rf, r_co, r_ci);
        // match_choices!  (expands to `generics::ChoiceN::_k(x)`: `generics` must be in scope at the call site)
        let mc: (usize, bool) = ::pest_typed_derive::match_choices!(s {
            x => ($k0, addr == Some(x as *const _ as *const ())),
            $( x => ($k, addr == Some(x as *const _ as *const ())), )*
            x => ($kl, addr == Some(x as *const _ as *const ())),
        });
        let _ = write!(out, " (mc {}{})", mc.0, $crate::pm(mc.1));
        // the payload, through the accessors
        if let Some(x) = s.$v0() { out.push(' '); $crate::AccShow::acc(x, out); }
        $( if let Some(x) = s.$v() { out.push(' '); $crate::AccShow::acc(x, out); } )*
        if let Some(x) = s.$vl() { out.push(' '); $crate::AccShow::acc(x, out); }
        out.push(')');
    }};
}

#[macro_export]
macro_rules! acc_choice {
    ($name:ident, $n:literal, ($T0:ident, $v0:ident, $k0:literal), $( ($T:ident, $v:ident, $k:literal), )* ; ($TL:ident, $vl:ident, $kl:literal)) => {
        impl<$T0: $crate::AccShow + Clone + PartialEq + ::core::fmt::Debug, $($T: $crate::AccShow + Clone + PartialEq + ::core::fmt::Debug,)* $TL: $crate::AccShow + Clone + PartialEq + ::core::fmt::Debug> $crate::AccShow
            for $name<$T0, $($T,)* $TL>
        {
            fn acc(&self, out: &mut String) {
                $crate::acc_choice_body!(self, out, $n, ($v0, $k0), $( ($v, $k), )* ; ($vl, $kl));
            }
        }
    };
}

mod lib_arities {
    // one impl per arity the runtime crate under test provides (generated by build.rs from its sources)
    use super::generics;
    use pest_typed::choices::*;
    use pest_typed::sequence::*;
    include!(concat!(env!("OUT_DIR"), "/arities.rs"));
}

// ------------------------------------------------------------------------------------------------
// rule structs (the generated code implements `AccShow` for each with these)

pub fn rule_both<C: AccShow>(out: &mut String, name: &str, span: &Span<'_>, content: &C) {
    let _ = write!(out, "(rule {} B {} {} ", name, span.start(), span.end());
    content.acc(out);
    out.push(')');
}
pub fn rule_span(out: &mut String, name: &str, span: &Span<'_>) {
    let _ = write!(out, "(rule {} S {} {})", name, span.start(), span.end());
}
pub fn rule_expr<C: AccShow>(out: &mut String, name: &str, content: &C) {
    let _ = write!(out, "(rule {} E ", name);
    content.acc(out);
    out.push(')');
}

// ------------------------------------------------------------------------------------------------
// entry `uprint`: which of the given characters `{:?}` prints as themselves (`char::escape_debug_ext`: printable and
// not grapheme-extending; tables of the standard library).  The harness feeds this to the model's `strDebug` /
// `charDebug` as their parameter `uprint`, and to its own recomputation of `format_as_tree`.

pub fn run_uprint(input: &str) -> String {
    let ok: String = input.chars().filter(|c| format!("{:?}", c) == format!("'{}'", c)).collect();
    format!("v=ok\tprintable={}", hex(&ok))
}

// ------------------------------------------------------------------------------------------------
// entry `acc`

fn acc_with<'i, I: Input<'i>, R: RuleType, N: TypedNode<'i, R> + AccShow>(input: I) -> String {
    let mut stack = Stack::new();
    let mut tracker = Tracker::<'i, R>::new(input);
    match N::try_parse_partial_with(input, &mut stack, &mut tracker) {
        Some((next, node)) => format!("v=ok\tend={}\tacc={}", next.byte_offset(), show(&node)),
        None => "v=fail".to_string(),
    }
}
pub fn run_acc<'i, R: RuleType, N: TypedNode<'i, R> + AccShow>(form: &str, a: usize, b: usize, input: &'i str) -> String {
    match form {
        "str" => acc_with::<_, R, N>(input.as_input()),
        "pos" => match Position::new(input, a) {
            Some(p) => acc_with::<_, R, N>(p.as_input()),
            None => "v=badpos".into(),
        },
        "span" => match Span::new(input, a, b) {
            Some(s) => acc_with::<_, R, N>(s.as_input()),
            None => "v=badspan".into(),
        },
        _ => "v=badform".into(),
    }
}

// ------------------------------------------------------------------------------------------------
// entry `trav` (C15)

pub fn show_token<R: RuleType>(t: &Token<'_, R>, out: &mut String) {
    let _ = write!(out, "({:?} {} {}", t.rule, t.span.start(), t.span.end());
    for c in &t.children {
        out.push(' ');
        show_token(c, out);
    }
    out.push(')');
}
fn show_token_list<R: RuleType>(ts: &[Token<'_, R>]) -> String {
    let mut out = String::from("[");
    for (k, t) in ts.iter().enumerate() {
        if k > 0 {
            out.push(' ');
        }
        show_token(t, &mut out);
    }
    out.push(']');
    out
}
fn pair_part<'i, R: RuleType, N: Pair<'i, R> + Pairs<'i, R> + AccShow>(node: &N) -> String {
    let mut tok = String::new();
    show_token(&node.as_token(), &mut tok);
    let mut thin = String::new();
    vh_common::show_thin(&node.as_thin_token(), &mut thin);
    format!(
        "acc={}\ttok={}\tthin={}\tkids={}\tsoc={}",
        show(node),
        tok,
        thin,
        show_token_list(&node.children()),
        show_token_list(&node.self_or_children())
    )
}
fn trav_tree_with<'i, I: Input<'i>, R: RuleType, N: TypedNode<'i, R> + PairTree<'i, R> + Pairs<'i, R> + AccShow>(input: I) -> String {
    let mut stack = Stack::new();
    let mut tracker = Tracker::<'i, R>::new(input);
    match N::try_parse_partial_with(input, &mut stack, &mut tracker) {
        Some((next, node)) => {
            let mut pre = vec![];
            let r1 = node.iterate_pre_order(|t, d| {
                pre.push(format!("{:?}:{}:{}:{}:{}", t.rule, t.span.start(), t.span.end(), d, t.children.len()));
                Ok::<(), ()>(())
            });
            let mut lvl = vec![];
            let r2 = node.iterate_level_order(|t, d| {
                lvl.push(format!("{:?}:{}:{}:{}:{}", t.rule, t.span.start(), t.span.end(), d, t.children.len()));
                Ok::<(), ()>(())
            });
            let tree = node.format_as_tree();
            let mut buf = String::new();
            let r3 = node.write_tree_to(&mut buf);
            format!(
                "v=ok\tend={}\t{}\tpre={}\tlvl={}\ttree={}\twt={}\tres={}{}{}",
                next.byte_offset(),
                pair_part::<R, N>(&node),
                pre.join(","),
                lvl.join(","),
                tree.as_ref().map_or("err".to_string(), |s| hex(s)),
                if Ok(&buf) == tree.as_ref() { "same" } else { "diff" },
                if r1.is_ok() { '1' } else { '0' },
                if r2.is_ok() { '1' } else { '0' },
                if r3.is_ok() { '1' } else { '0' },
            )
        }
        None => "v=fail".to_string(),
    }
}
fn trav_pair_with<'i, I: Input<'i>, R: RuleType, N: TypedNode<'i, R> + Pair<'i, R> + Pairs<'i, R> + AccShow>(input: I) -> String {
    let mut stack = Stack::new();
    let mut tracker = Tracker::<'i, R>::new(input);
    match N::try_parse_partial_with(input, &mut stack, &mut tracker) {
        Some((next, node)) => format!("v=ok\tend={}\t{}", next.byte_offset(), pair_part::<R, N>(&node)),
        None => "v=fail".to_string(),
    }
}
pub fn run_trav_tree<'i, R: RuleType, N: TypedNode<'i, R> + PairTree<'i, R> + Pairs<'i, R> + AccShow>(form: &str, a: usize, b: usize, input: &'i str) -> String {
    match form {
        "str" => trav_tree_with::<_, R, N>(input.as_input()),
        "pos" => match Position::new(input, a) {
            Some(p) => trav_tree_with::<_, R, N>(p.as_input()),
            None => "v=badpos".into(),
        },
        "span" => match Span::new(input, a, b) {
            Some(s) => trav_tree_with::<_, R, N>(s.as_input()),
            None => "v=badspan".into(),
        },
        _ => "v=badform".into(),
    }
}
pub fn run_trav_pair<'i, R: RuleType, N: TypedNode<'i, R> + Pair<'i, R> + Pairs<'i, R> + AccShow>(form: &str, a: usize, b: usize, input: &'i str) -> String {
    match form {
        "str" => trav_pair_with::<_, R, N>(input.as_input()),
        "pos" => match Position::new(input, a) {
            Some(p) => trav_pair_with::<_, R, N>(p.as_input()),
            None => "v=badpos".into(),
        },
        "span" => match Span::new(input, a, b) {
            Some(s) => trav_pair_with::<_, R, N>(s.as_input()),
            None => "v=badspan".into(),
        },
        _ => "v=badform".into(),
    }
}

// ------------------------------------------------------------------------------------------------
// entry `eqh` (C18)

pub fn boundaries(s: &str) -> Vec<usize> {
    let mut v: Vec<usize> = s.char_indices().map(|(i, _)| i).collect();
    v.push(s.len());
    v
}
#[derive(Clone, Copy)]
enum Item {
    PStr,
    FStr,
    PPos(usize),
    PSpan(usize, usize),
    FSpan(usize, usize),
}
fn item_name(it: &Item, rep: usize) -> String {
    match it {
        Item::PStr => format!("ps{}", rep),
        Item::FStr => format!("fs{}", rep),
        Item::PPos(a) => format!("pp:{}", a),
        Item::PSpan(a, b) => format!("pn:{}:{}", a, b),
        Item::FSpan(a, b) => format!("fn:{}:{}", a, b),
    }
}
fn parse_item<'i, R: RuleType, N: ParsableTypedNode<'i, R>>(it: &Item, input: &'i str) -> Option<N> {
    match *it {
        Item::PStr => N::try_parse_partial(input).ok().map(|x| x.1),
        Item::FStr => N::try_parse(input).ok(),
        Item::PPos(a) => N::try_parse_partial(Position::new(input, a)?).ok().map(|x| x.1),
        Item::PSpan(a, b) => N::try_parse_partial(Span::new(input, a, b)?).ok().map(|x| x.1),
        Item::FSpan(a, b) => N::try_parse(Span::new(input, a, b)?).ok(),
    }
}
fn hash_of<T: std::hash::Hash>(t: &T) -> u64 {
    use std::hash::Hasher;
    let mut h = std::collections::hash_map::DefaultHasher::new();
    t.hash(&mut h);
    h.finish()
}
fn classes<T: PartialEq>(v: &[T]) -> String {
    let mut reps: Vec<&T> = vec![];
    let mut out = vec![];
    for x in v {
        match reps.iter().position(|r| *r == x) {
            Some(k) => out.push(k.to_string()),
            None => {
                out.push(reps.len().to_string());
                reps.push(x);
            }
        }
    }
    out.join(",")
}
/// All (sub-)inputs of one string: the string itself (twice, partial and full), every `Position`,
/// every `Span` (partial and full); `==` matrix, hash / Debug classes, clone, re-parse after a
/// seeded history of other parses (`noise` parses other rules of the grammar), and the same parse on
/// a COPY of the string (another input object).
pub fn run_eqh<'i, R: RuleType, N: ParsableTypedNode<'i, R> + std::hash::Hash>(seed: usize, input: &'i str, noise: fn(usize, &str)) -> String {
    let bs = boundaries(input);
    let mut items: Vec<(String, Item)> = vec![
        (item_name(&Item::PStr, 1), Item::PStr),
        (item_name(&Item::PStr, 2), Item::PStr),
        (item_name(&Item::FStr, 1), Item::FStr),
        (item_name(&Item::FStr, 2), Item::FStr),
    ];
    for &a in &bs[1..] {
        items.push((item_name(&Item::PPos(a), 0), Item::PPos(a)));
    }
    for (ia, &a) in bs.iter().enumerate() {
        for &b in &bs[ia..] {
            items.push((item_name(&Item::PSpan(a, b), 0), Item::PSpan(a, b)));
            items.push((item_name(&Item::FSpan(a, b), 0), Item::FSpan(a, b)));
        }
    }
    let mut names = vec![];
    let mut its = vec![];
    let mut vals: Vec<N> = vec![];
    for (name, it) in &items {
        if let Some(v) = parse_item::<R, N>(it, input) {
            names.push(name.clone());
            its.push(*it);
            vals.push(v);
        }
    }
    let n = vals.len();
    let mut rows = vec![];
    for i in 0..n {
        let mut row = String::new();
        for j in 0..n {
            row.push(if vals[i] == vals[j] { '1' } else { '0' });
        }
        rows.push(row);
    }
    let hashes: Vec<u64> = vals.iter().map(hash_of).collect();
    let dbgs: Vec<String> = vals.iter().map(|v| format!("{:?}", v)).collect();
    let mut cl = String::new();
    for i in 0..n {
        let c = vals[i].clone();
        cl.push(if c == vals[i] && vals[i] == c && hash_of(&c) == hashes[i] && format!("{:?}", c) == dbgs[i] { '1' } else { '0' });
    }
    // history: before re-parsing an item run a seeded sequence of unrelated parses
    let mut rng = (seed as u64).wrapping_mul(6364136223846793005).wrapping_add(1442695040888963407);
    let mut next = || {
        rng = rng.wrapping_mul(6364136223846793005).wrapping_add(1442695040888963407);
        (rng >> 33) as usize
    };
    let mut hist = String::new();
    let mut order: Vec<usize> = (0..n).collect();
    for i in (1..n).rev() {
        let j = next() % (i + 1);
        order.swap(i, j);
    }
    let mut hist_bits = vec!['1'; n];
    for &i in &order {
        let k = next() % 4;
        for _ in 0..k {
            let r = next();
            if r % 2 == 0 {
                let a = bs[next() % bs.len()];
                noise(r / 2, &input[a..]);
            } else if n > 0 {
                let j = next() % n;
                let _ = parse_item::<R, N>(&its[j], input);
            }
        }
        match parse_item::<R, N>(&its[i], input) {
            Some(v) => {
                if !(v == vals[i] && hash_of(&v) == hashes[i] && format!("{:?}", v) == dbgs[i]) {
                    hist_bits[i] = '0';
                }
            }
            None => hist_bits[i] = '0',
        }
    }
    hist.extend(hist_bits);
    // another input object with the same content
    let copy: &'i str = Box::leak(input.to_string().into_boxed_str());
    let mut cp = String::new();
    if input.is_empty() {
        // two empty strings are not distinguishable objects (dangling pointer, length 0)
        cp.push('-');
    }
    for i in 0..(if input.is_empty() { 0 } else { n }) {
        match parse_item::<R, N>(&its[i], copy) {
            Some(v) => cp.push(if v == vals[i] { '1' } else { '0' }),
            None => cp.push('x'),
        }
    }
    let mut dreps: Vec<&String> = vec![];
    for d in &dbgs {
        if !dreps.contains(&d) {
            dreps.push(d);
        }
    }
    format!(
        "v=ok\titems={}\teq={}\ths={}\tdc={}\tcl={}\thist={}\tcopy={}\tdstr={}",
        names.join(","),
        rows.join(","),
        classes(&hashes),
        classes(&dbgs),
        cl,
        hist,
        cp,
        dreps.iter().map(|d| hex(d)).collect::<Vec<_>>().join(",")
    )
}
