#!/usr/bin/env python3
"""C16 harness: accessor functions emitted with `#[emit_rule_reference]`.

* corpus: systematic + seeded random grammars of corpus.py plus handwritten grammars stressing the
  getters (`handwritten_grammars`), each derived twice: optimized AST (`opt`) and
  `#[pest_optimizer = false]` (`raw`);
* WHICH accessors exist is taken from the Lean model (`model_driver`: `getters list …`, i.e. the keys of
  `genGetters`) and, independently, from /repo's generator run as a library (`getters_tool`); the two
  listings are compared as text (tie T-gen: names, return types, path expressions);
* the emitted workspace calls EVERY accessor the model lists (a getter the generator does not emit is a
  compile error) and flattens each result to the list of references it contains, each reference printed
  as its token list (`Pairs::for_self_or_each_child`), through the `Flat` trait below."""
import os, random, re, subprocess, sys
import corpus

HERE = os.path.dirname(os.path.abspath(__file__))
TOOL_DIR = os.path.join(HERE, "getters_tool")
# a target directory of its own: cargo holds a lock on the target directory for the whole duration of a build, and the
# shared build/target is in use by every other suite (observed: minutes of "waiting for file lock")
TARGET = os.path.join(corpus.BUILD, "target_c16")
ENV = dict(corpus.ENV, CARGO_TARGET_DIR=TARGET)
TOOL = os.path.join(TARGET, "debug", "getters_tool")
DRIVER = os.path.join(corpus.VERIF, "lean", ".lake", "build", "bin", "model_driver")
PREFIX = "c16g"
VARIANTS = ("opt", "raw", "optbox", "rawbox")
ATTRS = {"opt": "#[emit_rule_reference]\n    #[no_warnings]",
         "raw": "#[emit_rule_reference]\n    #[pest_optimizer = false]\n    #[no_warnings]",
         "optbox": "#[emit_rule_reference]\n    #[box_only_if_needed]\n    #[no_warnings]",
         "rawbox": "#[emit_rule_reference]\n    #[pest_optimizer = false]\n    #[box_only_if_needed]\n    #[no_warnings]"}


def base(variant):
    """The AST a derivation variant starts from (`opt` = optimized, `raw` = pest_optimizer = false); `…box` adds
    `#[box_only_if_needed]`, which only changes `Box<T>` / `T` for the content field."""
    return variant[:3]


def handwritten_grammars():
    gs = []

    def add(name, text):
        gs.append({"gid": name, "text": text})
    # the same rule mentioned 2-4 times in a sequence, in different choice branches, under ? * +
    add("h_multi", r'''
a = { "a" }
b = { "b" }
r0 = { a ~ a }
r1 = { a ~ b ~ a ~ a }
r2 = { a ~ a ~ a ~ a }
r3 = { a ~ b | b ~ a | a ~ a ~ b }
r4 = { a? ~ b* ~ a+ }
r5 = { (a ~ b?)* }
r6 = { (a | b)* ~ (a ~ b)? }
r7 = { (a | b)? ~ (b? ~ a)? }
r8 = { ((a ~ b) | (b ~ a+))+ }
''')
    # lookahead, PUSH, silent rules in between, atomic / compound / non-atomic referenced rules
    add("h_look", r'''
a = { "a" }
b = @{ "b" }
c = ${ "c" ~ a? }
s = _{ a ~ b }
t = _{ "t" | a }
r0 = { &a ~ a }
r1 = { !a ~ b }
r2 = { !a ~ a? ~ b ~ !(b ~ a) }
r3 = { &(a ~ b) ~ a ~ &b ~ b }
r4 = { PUSH(a) ~ b ~ POP }
r5 = { PUSH(a | b)+ ~ DROP }
r6 = { s ~ a }
r7 = { t ~ s? ~ t* }
r8 = { c ~ (s | c)* }
r9 = _{ a ~ (b | c)? }
r10 = { &(s) ~ t }
''')
    # implicit skipping: WHITESPACE / COMMENT between elements are not mentions; explicit mentions are
    add("h_skip", r'''
a = { "a" }
b = { "b" }
r0 = { a ~ a }
r1 = { a* ~ b }
r2 = ${ a ~ WHITESPACE ~ a }
r3 = ${ a ~ WHITESPACE* ~ (COMMENT ~ a)? }
r4 = !{ (a ~ b?)+ }
r5 = @{ a ~ b }
WHITESPACE = { " " }
COMMENT = { "/" }
''')
    # recursion (boxed content), nested options / choices that are flattened, counted repetitions
    add("h_rec", r'''
a = { "a" }
b = { "b" }
r0 = { "(" ~ r0* ~ ")" }
r1 = { a ~ r1? }
r2 = { a ~ r2 | b }
r3 = { ((a?) ~ b)? }
r4 = { (a | (b | a)?)? ~ "c" }
r5 = { ((a | b) | (b ~ a))* }
r6 = { a{2} ~ b{1,} ~ (a ~ b){,2} }
r7 = { (a? ~ b){1,2} ~ a{0,1} }
r8 = { "(" ~ (r3 ~ "c")? ~ r8? ~ ")" }
''')
    # slot order: the same rule in 2 and 3 alternatives of one choice, in two sequence positions, mixed; the k-th
    # slot of the result must belong to the k-th mention (both derivations: optimized and pest_optimizer = false)
    add("h_slots", r'''
x = { "1" | "2" }
y = { "y" }
s0 = { "a" ~ x | "b" ~ x }
s1 = { "a" ~ x | "b" ~ x | y ~ x ~ x }
s2 = { x ~ "a" ~ x }
s3 = { x ~ (x | y ~ x)* }
s4 = { (x ~ x)? ~ x }
s5 = { (x | y ~ x)+ ~ (y | x)? }
s6 = { x | y | x ~ x }
s7 = _{ ("a" ~ x | x ~ "b" | "b" ~ x){1,2} }
''')
    # `.content` hops (PUSH, &) are transparent for Option flattening: an Option-producing wrapper around PUSH(..) / &(..)
    # around another Option-producing wrapper must give ONE Option (both derivations)
    add("h_content", r'''
x = { "1" }
y = { "y" }
c0 = { (PUSH(x?) ~ "a" ~ y)? ~ "b" }
c1 = { (&(x | y) ~ ANY)? }
c2 = { &(x? ~ "a") ~ ANY+ | "b" }
c3 = { (PUSH(x | y) ~ "a" | "b") ~ DROP? }
c4 = { (PUSH(x?) ~ "a")* }
c5 = { (PUSH(&(x?)) ~ "a")? ~ "b"? }
c6 = { ((&(x?) ~ "a") | y)+ }
c7 = { (&(PUSH(x | y ~ x)) ~ ANY)? ~ "b" }
c8 = _{ (PUSH((x ~ "a")?))? ~ y }
c9 = { (PUSH(PUSH(x?)?) ~ "a")? ~ (&(&(y | x)) ~ ANY | "b") }
''')
    # wide choices / sequences (the runtime predefines arities up to 12, larger ones are macro-expanded in the user crate):
    # widths 11..17, the same rule mentioned by all / the last two / the alternatives around 12 and 13
    L = "abcdefghijklmnopq"
    lines, ins = ['x = { "1" | "2" }'], []
    for n in range(11, 18):
        lines.append(f"cw{n} = {{ " + " | ".join(f'"{L[k]}" ~ x' for k in range(n)) + " }")
        lines.append(f"cl{n} = {{ " + " | ".join((f'"{L[k]}" ~ x' if k >= n - 2 else f'"{L[k]}"') for k in range(n)) + " }")
        if n >= 14:
            lines.append(f"cm{n} = {{ " + " | ".join((f'"{L[k]}" ~ x' if k in (0, 11, 12, 13) else f'"{L[k]}"') for k in range(n)) + " }")
    for k in range(17):
        ins += [L[k], L[k] + "1", L[k] + "2"]
    add("h_wide_choice", "\n".join(lines) + "\n")
    gs[-1]["inputs"] = ins
    # (character ranges, not strings: pest's optimizer concatenates adjacent strings and would shrink the sequence)
    lines, ins = ['x = { "1" | "2" }'], []
    for n in range(11, 18):
        lines.append(f"sw{n} = {{ " + " ~ ".join((f"'{L[k]}'..'{L[k]}'" if k < n - 2 else "x") for k in range(n)) + " }")
        ins += [L[:n - 2] + "12", L[:n - 2] + "21", L[:n - 2] + "1"]
        if n >= 14:
            lines.append(f"sm{n} = {{ " + " ~ ".join(("x?" if k in (0, 12, 13) else f"'{L[k]}'..'{L[k]}'") for k in range(n)) + " }")
            body = lambda a, b, c: "".join((a if k == 0 else b if k == 12 else c if k == 13 else L[k]) for k in range(n))
            ins += [body("1", "2", "1"), body("", "1", "2"), body("2", "", "1"), body("", "", ""), body("1", "2", "")]
    add("h_wide_seq", "\n".join(lines) + "\n")
    gs[-1]["inputs"] = ins
    # built-ins are getters too (they are not rule structs: only tied, no oracle), EOI is a rule
    add("h_builtin", r'''
a = { "a" }
r0 = { SOI ~ a ~ ANY? ~ EOI }
r1 = { (ASCII_DIGIT | a)+ ~ NEWLINE? }
r2 = { PUSH(a) ~ PEEK ~ POP }
r3 = { a ~ EOI | a ~ a ~ EOI }
r4 = { (!EOI ~ ANY)* ~ EOI }
''')
    return gs


def random_getter_grammar(rnd, gid):
    """Seeded grammar biased to rule references: leaf rules a, b, c of random kinds, then 3-5 rules whose
    expressions are built over references (the same names mentioned again and again) with every operator.
    Nullability is tracked so that pest's validator accepts most of them."""
    kinds = ["", "", "", "_", "@", "$", "!"]
    lines = ['a = %s{ "a" }' % rnd.choice(kinds), 'b = %s{ "b" }' % rnd.choice(kinds),
             'c = %s{ "c" ~ a? }' % rnd.choice(kinds)]
    leaves = ["a", "b", "c"]
    ntop = rnd.randint(3, 5)
    tops = [f"r{i}" for i in range(ntop)]
    stack_ok = rnd.random() < 0.3

    def atom(later):
        r = rnd.random()
        if r < 0.70:
            return rnd.choice(leaves), False
        if r < 0.80 and later:
            return rnd.choice(later), False
        if r < 0.92:
            return rnd.choice(['"a"', '"b"', '"x"', '^"a"']), False
        return rnd.choice([("ANY", False), ("ASCII_DIGIT", False), ("SOI", True), ("EOI", True)])

    def expr(depth, later):
        """(text, nullable)"""
        if depth <= 0 or rnd.random() < 0.2:
            return atom(later)
        k = rnd.random()
        if k < 0.32:
            parts = [expr(depth - 1, later) for _ in range(rnd.randint(2, 4))]
            return "(" + " ~ ".join(p[0] for p in parts) + ")", all(p[1] for p in parts)
        if k < 0.52:
            n = rnd.randint(2, 3)
            parts = []
            for j in range(n):
                t, nl = expr(depth - 1, later)
                if nl and j < n - 1:
                    t, nl = "(" + t + " ~ " + rnd.choice(leaves) + ")", False
                parts.append((t, nl))
            return "(" + " | ".join(p[0] for p in parts) + ")", any(p[1] for p in parts)
        t, nl = expr(depth - 1, later)
        if k < 0.62:
            if nl:
                return t, True
            return "(" + t + ")?", True
        if k < 0.86:
            if nl:
                t = "(" + t + " ~ " + rnd.choice(leaves) + ")"
            op = rnd.choice(["*", "*", "+", "+", "{2}", "{1,}", "{,2}", "{1,2}"])
            return "(" + t + ")" + op, op in ("*", "{,2}")
        if k < 0.91:
            return "&(" + t + ")", True
        if k < 0.96:
            if nl:
                t = "(" + t + " ~ " + rnd.choice(leaves) + ")"
            return "!(" + t + ")", True
        if stack_ok:
            return "PUSH(" + t + ")", nl
        return t, nl
    for i, n in enumerate(tops):
        t, _ = expr(rnd.randint(2, 3), tops[i + 1:])
        lines.append("%s = %s{ %s }" % (n, rnd.choice(["", "", "", "_", "$", "!"]), t))
    if rnd.random() < 0.5:
        lines.append("WHITESPACE = %s{ \" \" }" % rnd.choice(["_", "_", "@", ""]))
    return {"gid": gid, "text": "\n".join(lines) + "\n"}


def c16_grammars(tier, seed):
    gs = [g for g in corpus.systematic_grammars() if not g["gid"].startswith("s_kinds")]
    gs += handwritten_grammars()
    gs += corpus.random_grammars(seed + 16, 16 if tier == "quick" else 120)
    rnd = random.Random(seed + 1600)
    gs += [random_getter_grammar(rnd, f"q{seed}_{i}") for i in range(48 if tier == "quick" else 400)]
    return gs


# ---------------------------------------------------------------------------------------------
# listings

def ensure_tool():
    lock = os.path.join(TOOL_DIR, "Cargo.lock")
    subprocess.check_call(["cp", "/repo/Cargo.lock", lock])
    p = subprocess.run(["cargo", "build", "--offline", "-q"], cwd=TOOL_DIR, env=ENV, capture_output=True, text=True)
    if p.returncode != 0:
        raise RuntimeError("getters_tool does not build against /repo's generator:\n" + p.stderr[-3000:])




def tool_list(grammars, variants=VARIANTS):
    """{(gid, variant): [(rule, name, type S-expression, boxed '0'|'1'|'?', path S-expression)] | 'ERR …'}: the
    accessor functions /repo's generator emits, read back STRUCTURALLY by getters_tool."""
    ensure_tool()
    inp = "".join(f"{g['gid']}\t{v}\t{corpus.hexs(g['text'])}\n" for g in grammars for v in variants)
    out = subprocess.run([TOOL], input=inp, capture_output=True, text=True).stdout
    res = {}
    for line in out.splitlines():
        f = line.split("\t")
        if len(f) < 4:
            continue
        if f[2] != "OK":
            res[(f[0], f[1])] = "ERR " + corpus.unhex(f[3])
            continue
        ents = []
        for e in filter(None, f[3].split(" ## ")):
            parts = e.split(" @@ ")
            ents.append(tuple(parts) if len(parts) == 5 else ("?", "?", "?", "?", e[:200]))
        res[(f[0], f[1])] = ents
    return res


def model_list(sexp_path, grammars):
    """{(gid, 'opt'|'raw'): [(rule, name, type S-expression, path S-expression)]} from the Lean model (`genGetters`)."""
    lines = [f"getters list {g['gid']} {v}" for g in grammars for v in ("opt", "raw")]
    out = subprocess.run([DRIVER, sexp_path], input="\n".join(lines) + "\n", capture_output=True, text=True).stdout.split("\n")
    res = {}
    k = 0
    for g in grammars:
        for v in ("opt", "raw"):
            line = out[k] if k < len(out) else "v=missing"
            k += 1
            ents = []
            for e in filter(None, line.split(" ## ")):
                f = e.split("\t")
                if len(f) == 4:
                    ents.append(tuple(f))
                else:
                    ents.append(("?", "?", "?", line[:200]))
            res[(g["gid"], v)] = ents
    return res


# ---------------------------------------------------------------------------------------------
# workspace

MAIN_HEAD = r'''#![allow(warnings)]
use vh_common::{show_tokens, CaseFn};
use pest_typed::{iterators::Pairs, Input, ParsableTypedNode, RuleType, TypedNode};

/// All references inside an accessor result, left to right; a reference is shown as its token list.
pub trait Flat<'i, R> { fn flat(&self, out: &mut Vec<String>); }
impl<'s, 'i, R: RuleType, X: Pairs<'i, R>> Flat<'i, R> for &'s X { fn flat(&self, out: &mut Vec<String>) { out.push(show_tokens::<R, X>(*self)); } }
impl<'i, R, A: Flat<'i, R>> Flat<'i, R> for Option<A> { fn flat(&self, out: &mut Vec<String>) { if let Some(a) = self { a.flat(out); } } }
impl<'i, R, A: Flat<'i, R>> Flat<'i, R> for Vec<A> { fn flat(&self, out: &mut Vec<String>) { for a in self { a.flat(out); } } }
/// The same result unflattened, in a canonical rendering: `N` / `S(..)` for Option, `V{..;..}` for Vec, `T{..;..}` for tuples.
pub trait Show<'i, R> { fn show(&self, out: &mut String); }
impl<'s, 'i, R: RuleType, X: Pairs<'i, R>> Show<'i, R> for &'s X { fn show(&self, out: &mut String) { out.push_str(&show_tokens::<R, X>(*self)); } }
impl<'i, R, A: Show<'i, R>> Show<'i, R> for Option<A> { fn show(&self, out: &mut String) { match self { None => out.push('N'), Some(a) => { out.push_str("S("); a.show(out); out.push(')'); } } } }
impl<'i, R, A: Show<'i, R>> Show<'i, R> for Vec<A> { fn show(&self, out: &mut String) { out.push_str("V{"); for (k, a) in self.iter().enumerate() { if k > 0 { out.push(';'); } a.show(out); } out.push('}'); } }
macro_rules! flat_tuple { ($($n:ident $i:tt),+) => {
    impl<'i, R, $($n: Flat<'i, R>),+> Flat<'i, R> for ($($n,)+) { fn flat(&self, out: &mut Vec<String>) { $( self.$i.flat(out); )+ } }
    impl<'i, R, $($n: Show<'i, R>),+> Show<'i, R> for ($($n,)+) { fn show(&self, out: &mut String) { out.push_str("T{"); $( if $i > 0 { out.push(';'); } self.$i.show(out); )+ out.push('}'); } }
} }
flat_tuple!(A 0, B 1); flat_tuple!(A 0, B 1, C 2); flat_tuple!(A 0, B 1, C 2, D 3); flat_tuple!(A 0, B 1, C 2, D 3, E 4);
flat_tuple!(A 0, B 1, C 2, D 3, E 4, F 5); flat_tuple!(A 0, B 1, C 2, D 3, E 4, F 5, G 6); flat_tuple!(A 0, B 1, C 2, D 3, E 4, F 5, G 6, H 7);
flat_tuple!(A 0, B 1, C 2, D 3, E 4, F 5, G 6, H 7, I 8); flat_tuple!(A 0, B 1, C 2, D 3, E 4, F 5, G 6, H 7, I 8, J 9);
flat_tuple!(A 0, B 1, C 2, D 3, E 4, F 5, G 6, H 7, I 8, J 9, K 10); flat_tuple!(A 0, B 1, C 2, D 3, E 4, F 5, G 6, H 7, I 8, J 9, K 10, L 11);
flat_tuple!(A 0, B 1, C 2, D 3, E 4, F 5, G 6, H 7, I 8, J 9, K 10, L 11, M 12); flat_tuple!(A 0, B 1, C 2, D 3, E 4, F 5, G 6, H 7, I 8, J 9, K 10, L 11, M 12, N 13);
flat_tuple!(A 0, B 1, C 2, D 3, E 4, F 5, G 6, H 7, I 8, J 9, K 10, L 11, M 12, N 13, O 14); flat_tuple!(A 0, B 1, C 2, D 3, E 4, F 5, G 6, H 7, I 8, J 9, K 10, L 11, M 12, N 13, O 14, P 15);
flat_tuple!(A 0, B 1, C 2, D 3, E 4, F 5, G 6, H 7, I 8, J 9, K 10, L 11, M 12, N 13, O 14, P 15, Q 16); flat_tuple!(A 0, B 1, C 2, D 3, E 4, F 5, G 6, H 7, I 8, J 9, K 10, L 11, M 12, N 13, O 14, P 15, Q 16, S 17);
'''

MOD = '''
pub mod @V@_@GID@ {
    use pest_typed_derive::TypedParser;
    #[derive(TypedParser)]
    #[grammar_inline = r##"@TEXT@"##]
    @ATTRS@
    pub struct P;
}
'''

FN_HEAD = '''fn f_@V@_@GID@_@RULE@(input: &str) -> String {
    match @V@_@GID@::rules::r#@RULE@::try_parse_partial(input) {
        Err(_) => "v=fail".to_string(),
        Ok((next, node)) => {
            let mut parts: Vec<String> = vec![];
            let mut shown: Vec<String> = vec![];
'''
FN_GET = '''            { let res = node.r#@X@(); let mut got = vec![]; Flat::<@V@_@GID@::Rule>::flat(&res, &mut got); parts.push(format!("@X@:{}", got.join(",")));
              let mut st = String::new(); Show::<@V@_@GID@::Rule>::show(&res, &mut st); shown.push(format!("@X@:{}", st)); }
'''
FN_TAIL = '''            format!("v=ok\\tend={}\\ttok={}\\tget={}\\tst={}", next.byte_offset(), show_tokens::<@V@_@GID@::Rule, _>(&node), parts.join("|"), shown.join("|"))
        }
    }
}
'''
FN_CASE = '''fn c_@GID@_@RULE@(variant: &str, _f: &str, _a: usize, _b: usize, input: &str) -> String {
    match variant { @ARMS@ _ => "v=novariant".to_string() }
}
'''


def fill(t, **kw):
    for k, v in kw.items():
        t = t.replace("@" + k + "@", str(v))
    return t


def emit_workspace(grammars, getters, outdir, nbins, skip=(), prefix=PREFIX, variants_of=None):
    """`getters[(gid, variant)]` = model listing; every listed accessor is called.  `skip` = set of
    (gid, variant) that the generator itself rejects (reported by the caller).  `prefix` names the binary
    crates: it must differ between workspaces that share one CARGO_TARGET_DIR (one per tier), otherwise the
    binaries of one workspace overwrite those of the other in target/debug while cargo still thinks they are fresh."""
    os.makedirs(outdir, exist_ok=True)
    bins = [[] for _ in range(nbins)]
    loads = [0] * nbins
    where = {}
    for g in sorted(grammars, key=lambda g: -len(g["rules"])):
        k = loads.index(min(loads))
        bins[k].append(g)
        loads[k] += len(g["rules"]) + 2
        where[g["gid"]] = k
    members = []
    for b, glist in enumerate(bins):
        if not glist:
            continue
        d = os.path.join(outdir, f"{prefix}{b}")
        os.makedirs(os.path.join(d, "src"), exist_ok=True)
        members.append(f"{prefix}{b}")
        with open(os.path.join(d, "Cargo.toml"), "w") as f:
            f.write(f'''[package]
name = "{prefix}{b}"
version = "0.0.0"
edition = "2021"
[dependencies]
vh_common = {{ path = "{HERE}/common" }}
pest_typed = {{ path = "/repo/main" }}
pest_typed_derive = {{ path = "/repo/derive" }}
pest = "=2.7.14"
''')
        code = [MAIN_HEAD]
        arms = []
        for g in glist:
            gid = g["gid"]
            vs = [v for v in (variants_of(g) if variants_of else VARIANTS) if (gid, v) not in skip]
            for v in vs:
                code.append(fill(MOD, V=v, GID=gid, TEXT=g["text"], ATTRS=ATTRS[v]))
            for (rule, kind) in g["rules"]:
                varms = []
                for v in vs:
                    xs = [e[1] for e in getters.get((gid, base(v)), []) if e[0] == rule]
                    code.append(fill(FN_HEAD, V=v, GID=gid, RULE=rule) + "".join(fill(FN_GET, V=v, GID=gid, X=x) for x in xs)
                                + fill(FN_TAIL, V=v, GID=gid))
                    varms.append(f'"{v}" => f_{v}_{gid}_{rule}(input),')
                code.append(fill(FN_CASE, GID=gid, RULE=rule, ARMS=" ".join(varms)))
                arms.append(f'        ("{gid}", "{rule}") => Some((c_{gid}_{rule} as CaseFn, None)),')
        code.append("fn dispatch(gid: &str, rule: &str) -> Option<(CaseFn, Option<fn(&str) -> String>)> {\n    match (gid, rule) {\n"
                    + "\n".join(arms) + "\n        _ => None,\n    }\n}\n")
        code.append("fn main() { vh_common::serve(dispatch); }\n")
        path = os.path.join(d, "src", "main.rs")
        new = "\n".join(code)
        old = open(path).read() if os.path.exists(path) else None
        if old != new:
            open(path, "w").write(new)
    # stale members of an earlier, larger run
    for name in os.listdir(outdir):
        if name.startswith(PREFIX) and name not in members and os.path.isdir(os.path.join(outdir, name)):
            subprocess.call(["rm", "-rf", os.path.join(outdir, name)])
    ws = "[workspace]\nresolver = \"2\"\nmembers = [" + ", ".join(f'"{m}"' for m in members) + "]\n" + corpus.PROFILE
    open(os.path.join(outdir, "Cargo.toml"), "w").write(ws)
    subprocess.check_call(["cp", "/repo/Cargo.lock", os.path.join(outdir, "Cargo.lock")])
    return where
