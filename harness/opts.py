#!/usr/bin/env python3
"""Option combinations of the derive (property C20): the option sets, the grammar corpus (with
hand-written mutually recursive grammars), the multi-process determinism runner, emission of one
cargo workspace that holds the same corpus compiled under every option set (one group of crates
per set, through corpus.emit_workspace(attrs=...)), a Python mirror of pest_meta 2.7.14's optimizer
passes over the s-expression ASTs of `dump_ast` (used only to *attribute* raw-vs-optimized
differences to a pass), and syntactic tests for the two known patterns."""
import itertools, os, random, re, subprocess, sys, hashlib

HERE = os.path.dirname(os.path.abspath(__file__))
sys.path.insert(0, HERE)
import corpus

RUNNER_DIR = os.path.join(HERE, "opts_runner")
RUNNER = os.path.join(corpus.TARGET, "debug", "opts_runner")

# the options that exist with default features; `emit_tagged_node_reference` and
# `truncate_getter_at_node_tag` are only read under the `grammar-extras` feature (node tags), which is
# outside the modelled surface: they are still switched in the determinism runs (where they must be inert).
FLAGS = ["box_only_if_needed", "emit_rule_reference", "do_not_emit_span", "pest_optimizer"]


class OptSet:
    def __init__(self, name, **kw):
        self.name = name
        self.box = kw.get("box_only_if_needed", False)
        self.ref = kw.get("emit_rule_reference", False)
        self.nospan = kw.get("do_not_emit_span", False)
        self.nowarn = kw.get("no_warnings", False)
        self.opt = kw.get("pest_optimizer", True)
        self.extra = kw.get("extra", "")       # further attributes, only for the determinism runner

    @property
    def attrs(self):
        a = []
        if self.ref:
            a.append("#[emit_rule_reference]")
        if self.box:
            a.append("#[box_only_if_needed]")
        if self.nowarn:
            a.append("#[no_warnings]")
        if self.nospan:
            a.append("#[do_not_emit_span]")
        if not self.opt:
            a.append("#[pest_optimizer = false]")
        if self.extra:
            a.append(self.extra)
        return " ".join(a)

    @property
    def bits(self):
        """Argument of the model driver's `opts` entry: box_only_if_needed, pest_optimizer."""
        return ("1" if self.box else "0") + ("1" if self.opt else "0")

    def same_ast(self, other):
        return self.opt == other.opt

    def describe(self):
        return {"name": self.name, "attrs": self.attrs or "(default)"}


DEFAULT = OptSet("default")
ALL_ON = OptSet("allon", emit_rule_reference=True, box_only_if_needed=True, no_warnings=True, do_not_emit_span=True)
RAW = OptSet("raw", pest_optimizer=False)
BOX_ONLY = OptSet("boxonly", box_only_if_needed=True)
RAW_BOX = OptSet("rawbox", box_only_if_needed=True, pest_optimizer=False)


def option_sets(tier, seed):
    if tier == "quick":
        rnd = random.Random(seed ^ 0xC20)
        sets = [DEFAULT, ALL_ON, RAW, BOX_ONLY, RAW_BOX]       # reduced boxing is always compiled on both AST paths
        seen = {(s.box, s.ref, s.nospan, s.opt) for s in sets}
        k = 0
        while k < 2:
            bits = tuple(rnd.random() < 0.5 for _ in range(4))
            if bits in seen:
                continue
            seen.add(bits)
            sets.append(OptSet(f"rnd{k}", box_only_if_needed=bits[0], emit_rule_reference=bits[1],
                               do_not_emit_span=bits[2], pest_optimizer=bits[3], no_warnings=rnd.random() < 0.5))
            k += 1
        return sets
    sets = []
    for bits in itertools.product((False, True), repeat=4):
        name = "c" + "".join("1" if b else "0" for b in bits)
        sets.append(OptSet(name, box_only_if_needed=bits[0], emit_rule_reference=bits[1], do_not_emit_span=bits[2],
                           pest_optimizer=bits[3], no_warnings=bits[1]))
    # `default` first: it is the reference of every comparison
    sets.sort(key=lambda s: (s.box, s.ref, s.nospan, not s.opt))
    return sets


def determinism_sets(tier, seed):
    """Option sets for the token-stream runs (cheap: no rustc): the invariance sets, the attributes that
    need `grammar-extras` to do anything (they must be inert and deterministic here), and single-option
    sets so that every option is compared against the set that differs from it in that option alone."""
    extra = [OptSet("tagged", extra="#[emit_tagged_node_reference] #[no_warnings] #[truncate_getter_at_node_tag = false]"),
             OptSet("pairapi", extra="#[simulate_pair_api]", box_only_if_needed=True, pest_optimizer=False),
             OptSet("boxonly", box_only_if_needed=True),
             OptSet("nospanonly", do_not_emit_span=True),
             OptSet("nowarnonly", no_warnings=True),
             OptSet("refonly", emit_rule_reference=True),
             OptSet("refbox", emit_rule_reference=True, box_only_if_needed=True, do_not_emit_span=True, no_warnings=True),
             OptSet("rawref", emit_rule_reference=True, pest_optimizer=False),
             OptSet("rawboxspan", box_only_if_needed=True, pest_optimizer=False, do_not_emit_span=True)]
    base = option_sets(tier, seed)
    names = {s.name for s in base}
    return base + [e for e in extra if e.name not in names]


def structure_reference(s):
    """The option set that keeps `emit_rule_reference` and `pest_optimizer` of `s` and switches everything
    else off: the token streams of the two may differ in the storage decision only."""
    return OptSet("ref_" + s.name, emit_rule_reference=s.ref, pest_optimizer=s.opt)


# ---------------------------------------------------------------------------------------------
# corpus

def recursive_grammars():
    """Hand-written (mutually) recursive grammars: cycles through every container the generator emits
    (sequence, choice, option, repetition, predicate, PUSH), through silent / atomic / non-atomic rules,
    through the implicit skip rules, self loops, nested and overlapping cycles."""
    gs = []

    def add(name, text):
        gs.append({"gid": name, "text": text})
    add("m_unit", 'a = { "a" ~ b* }\nb = { "b" ~ c? }\nc = { a+ }\n')                       # graph.rs's own unit test
    add("m_expr", r'''
expr = { term ~ (("+" | "-") ~ term)* }
term = { fact ~ (("*" | "/") ~ fact)* }
fact = { num | "(" ~ expr ~ ")" | "-" ~ fact }
num = @{ '0'..'9'+ }
WHITESPACE = _{ " " }
''')
    add("m_json", r'''
value = { obj | arr | str | "n" }
obj = { "{" ~ (pair ~ ("," ~ pair)*)? ~ "}" }
pair = { str ~ ":" ~ value }
arr = { "[" ~ (value ~ ("," ~ value)*)? ~ "]" }
str = @{ "'" ~ (!"'" ~ ANY)* ~ "'" }
WHITESPACE = _{ " " }
''')
    add("m_direct", r'''
opt_self = { "a" ~ opt_self? }
seq_self = { "(" ~ seq_self ~ ")" | "x" }
rep_self = { "[" ~ rep_self* ~ "]" }
pred_self = { "p" ~ &(pred_self | "q") ~ ANY }
push_self = { PUSH("s" ~ push_self?) ~ "e" ~ DROP }
''')
    add("m_kinds", r'''
n = { "n" ~ (s | "") }
s = _{ "s" ~ (a | "") }
a = @{ "a" ~ (c | "") }
c = ${ "c" ~ (x | "") }
x = !{ "x" ~ (n | "") }
WHITESPACE = _{ " " }
''')
    add("m_skipcycle", r'''
item = { "i" ~ item? }
top = { "t" ~ item ~ "t" }
plain = { "p" ~ "q" }
WHITESPACE = { " " | "<" ~ top? ~ ">" }
COMMENT = { "#" ~ plain? ~ "#" }
''')
    add("m_overlap", r'''
p = { "p" ~ (q | r)? }
q = { "q" ~ (p | r)* }
r = { "r" ~ (!p ~ q)? }
leaf = { "l" }
user = { leaf ~ p ~ leaf }
''')
    add("m_long", r'''
c0 = { "0" ~ c1? }
c1 = _{ "1" ~ c2 | "z" }
c2 = { ("2" ~ c3)+ }
c3 = @{ "3" ~ c4{,2} }
c4 = { "4" ~ (c5 | "y") }
c5 = ${ "5" ~ c0{1,2} }
''')
    add("m_twocycles", r'''
a1 = { "a" ~ b1? }
b1 = { "b" ~ a1? }
a2 = { "c" ~ b2* }
b2 = { "d" ~ a2 ~ "e" }
both = { a1 ~ a2 | b2 ~ b1 }
''')
    return gs


def opt_probe_grammars():
    """Small grammars around the two known raw-vs-optimized patterns and their neighbours."""
    gs = []

    def add(name, text):
        gs.append({"gid": name, "text": text})
    add("o_lister", 'r = { ("a" ~ "b")* ~ "a" }\nr2 = { (("a" | "c") ~ "b")* ~ ("a" | "c") ~ "d"? }\n')
    add("o_reponce", 'r0 = { (\'a\'..\'b\')+ }\nr1 = { "a"+ ~ "b" }\nr2 = ${ "a"+ }\nr3 = !{ ("a" | "b")+ ~ "c"? }\nWHITESPACE = @{ " " }\n')
    add("o_counted", 'r0 = { "a"{2} }\nr1 = { "a"{1,} }\nr2 = { "a"{,2} }\nr3 = { "a"{1,2} ~ "b"? }\nr4 = @{ "a"{2,3} }\nWHITESPACE = _{ " " }\nCOMMENT = _{ "#" }\n')
    # every counted form pest_meta accepts with a zero lower bound / zero occurrences (`{0}`, `{,0}`, `{0,0}` are refused by
    # pest_meta: "cannot repeat 0 times"); no skip rules, so that nothing here is near F-OPT-3
    add("o_zero", 'item = { "x" }\nlst = { "[" ~ item{0,} ~ "]" }\nsign = { "-"{0,} }\nnum = ${ sign ~ "5" }\n'
                  'r1 = { "a"{1,} ~ "b" }\nr01 = { "a"{0,1} ~ "b" }\nr2 = { "a"{2} ~ "b" }\nr02 = @{ "a"{0,2} ~ "b" }\n'
                  'r0n = { ("a" | "b"){0,} ~ "c" }\nr1n = { (item ~ "a"){1,} }\nr3 = { "a"{3,} ~ "b"? }\nrn = { (item{0,} ~ "y"){0,1} ~ "b" }\n')
    add("o_zero_atomic", 'w = @{ "a"{0,} ~ "b" }\nx = ${ ("a" ~ "a"){0,} ~ "b"{1,} }\ny = !{ "a"{0,} ~ "b"{0,1} ~ "c" }\n')
    add("o_minmax", 'r = { "a"{2,1} ~ "b" }\nr2 = { "a"{3,1} }\nr3 = @{ ("a" | "b"){2,1} ~ "c"? }\n')
    add("o_passes", r'''
rot = { ("a" ~ "b") ~ ("c" ~ "d") | ("a" | "b") | "c" }
cat = @{ "a" ~ "b" ~ ^"c" ~ ^"d" }
fac = { "a" ~ "b" | "a" ~ "c" }
fac2 = @{ "a" ~ "b" | "a" }
fac3 = { "a" | "a" ~ "b" }
skp = @{ (!("x" | "yz") ~ ANY)* ~ "x" }
rst = { (PUSH("a") ~ "b")? ~ (PUSH("c") | "a") ~ (PUSH("a") ~ "z")* }
''')
    return gs


# ---------------------------------------------------------------------------------------------
# the `grammar-extras` cargo feature: node tags

EXTRAS_RUNNER_DIR = os.path.join(HERE, "opts_runner_extras")
EXTRAS_RUNNER = os.path.join(corpus.TARGET, "debug", "opts_runner_extras")
EXTRAS_TGEN_DIR = os.path.join(HERE, "tgen_tool_extras")
EXTRAS_TGEN = os.path.join(corpus.TARGET, "debug", "tgen_tool_extras")

EXTRAS_SETS = [
    OptSet("xdefault"),
    OptSet("xtagged", extra="#[emit_tagged_node_reference]"),
    OptSet("xtaggedfull", emit_rule_reference=True, no_warnings=True, extra="#[emit_tagged_node_reference] #[truncate_getter_at_node_tag = false]"),
    OptSet("xrawtagged", pest_optimizer=False, extra="#[emit_tagged_node_reference]"),
    OptSet("xboxtagged", box_only_if_needed=True, emit_rule_reference=True, extra="#[emit_tagged_node_reference]"),
]


# F-TAG-SKIP (fixed in /repo by 0591c20): with `grammar-extras` and `#[emit_tagged_node_reference]` a tag on an expression that
# pest_meta's `skip` pass rewrites to `Skip([...])` — `c = @{ "#" ~ #body = (!"#" ~ ANY)* }` — made the derive output fail to compile
# (E0106: the emitted alias `tags::c::body` named `generics::Skip::<w>` without its lifetime).  The witness stays in the corpus.
TAG_SKIP_WITNESS = True


def untag(text):
    return re.sub(r"#\w+\s*=\s*", "", text)


def tagged_grammars():
    """Grammars with node tags (`#tag = e`, only meaningful with `grammar-extras`); each comes with its untagged twin:
    a tag names a sub-expression for the accessor API and must change neither the emitted rule types nor any parse."""
    src = {
        "x_tags": 'a = { #first = "a" ~ #rest = b* }\nb = { #x = ("b" | c) }\nc = @{ #digits = "c"+ }\n'
                  'd = { (#l = a ~ "+" ~ #r = a) | #single = b }\nWHITESPACE = _{ " " }\n',
        "x_tags_nested": 'top = { #whole = (#head = item ~ (#sep = "," ~ #tail = item)*) }\nitem = ${ #neg = "-"? ~ #num = digit+ }\n'
                         'digit = { #d = \'0\'..\'9\' }\nopt = !{ #o = (#i = item)? ~ #p = &"x" ~ #n = !"y" ~ #any = ("z" | item) }\n',
        "x_tags_rec": 'e = { #lhs = t ~ (#op = ("+" | "-") ~ #rhs = t)* }\nt = { #lit = "n" | "(" ~ #inner = e ~ ")" }\n'
                      's = { #pushed = PUSH("a"+) ~ PEEK ~ #gone = ("g" ~ POP) }\nWHITESPACE = _{ " " }\nCOMMENT = @{ "#" ~ (!"#" ~ ANY)* ~ #close = "#" }\n',
    }
    if TAG_SKIP_WITNESS:
        src["x_tags_skip"] = 'c = @{ "#" ~ #body = (!"#" ~ ANY)* }\n'
    out = []
    for gid, text in src.items():
        out.append(({"gid": gid + "_t", "text": text}, {"gid": gid + "_p", "text": untag(text)}))
    return out


def reponce_grammars():
    """With `grammar-extras` pest_meta's optimizer keeps `e+` as `OptimizedExpr::RepOnce` (feature-only arm of
    `optimized_rule.rs`); for rules on which no other pass fires the optimized path must then emit the very type the raw
    path emits (`rule.rs`, `Expr::RepOnce`)."""
    return [{"gid": "x_reponce", "text": 'a = { "a"+ }\nb = @{ ("b" | "c")+ }\nc = ${ a+ ~ "x" }\nd = !{ (a ~ b)+ }\ne = _{ (!"z" ~ a)+ }\n'
                                          'WHITESPACE = _{ " " }\n'}]


def build_extras():
    for d in (EXTRAS_RUNNER_DIR, EXTRAS_TGEN_DIR):
        lock = os.path.join(d, "Cargo.lock")
        if not os.path.exists(lock):
            subprocess.check_call(["cp", "/repo/Cargo.lock", lock])
        p = subprocess.run(["cargo", "build", "--offline", "-q"], cwd=d, env=corpus.ENV, capture_output=True, text=True)
        if p.returncode != 0:
            raise RuntimeError(f"{os.path.basename(d)} (feature grammar-extras) does not build:\n" + p.stderr[-3000:])


def emit_extras(pairs, optsets, outdir, tag=""):
    """One cargo workspace whose crates depend on pest_typed_derive WITH `grammar-extras` (a workspace of its own: cargo
    unifies features inside one workspace).  Returns {set name: (prefix, where)}."""
    grammars = [g for pr in pairs for g in pr]
    lay = emit_all(grammars, optsets, outdir, 1, tag=tag + "x")
    for s in optsets:
        toml = os.path.join(outdir, s.name, "b0", "Cargo.toml")
        t = open(toml).read()
        t2 = t.replace('pest_typed_derive = { path = "/repo/derive" }', 'pest_typed_derive = { path = "/repo/derive", features = ["grammar-extras"] }')
        # pest_meta's feature is unified over the whole build: pest_generator (behind pest_derive) must get it too
        t2 = t2.replace('pest_derive = "=2.7.14"', 'pest_derive = { version = "=2.7.14", features = ["grammar-extras"] }')
        if "grammar-extras" not in t2 or t2.count("grammar-extras") < 2:
            raise RuntimeError("emit_extras: the pest_typed_derive / pest_derive dependency lines were not found in " + toml)
        if t2 != t:
            open(toml, "w").write(t2)
    return lay


def documented_grammars():
    """Grammars with `//!` grammar docs and `///` rule docs: the generator keeps rule docs in a `HashMap`
    (`docs.rs: DocComment.line_docs`), the only hash-ordered container of the generator; enough documented rules that
    an iteration over it would show a process-dependent order."""
    gs = []
    rules = []
    names = ["alpha", "beta", "gamma", "delta", "epsilon", "zeta", "eta", "theta", "iota", "kappa", "lambda", "mu"]
    for k, n in enumerate(names):
        nxt = names[(k + 1) % len(names)]
        body = f'"{chr(97 + k)}" ~ {nxt}?' if k % 3 else f'"{chr(97 + k)}"{{1,2}} | "{chr(65 + k)}"+'
        rules.append(f"/// The rule `{n}`: documented, line 1.\n/// Second doc line of {n} with \"quotes\" and a back\\slash.\n{n} = {{ {body} }}")
    gs.append({"gid": "d_docs", "text": "//! Grammar level documentation.\n//! Second line of the grammar doc.\n\n" + "\n".join(rules) +
               "\n/// Skips blanks.\nWHITESPACE = _{ \" \" }\n"})
    gs.append({"gid": "d_docs_partial", "text": "//! Only some rules are documented.\n/// first\nr0 = { \"a\" ~ r1* }\nr1 = @{ \"b\"{2} }\n/// third\nr2 = ${ r0 | r1 }\n"})
    return gs


CYCLE_EDGES = {"seq": "{n}", "choice": "({n} | \"!\")", "opt": "{n}?", "rep": "{n}*"}
CYCLE_ORDERS = ("topdown", "bottomup", "rotated", "shuffled")
CYCLE_SURROUND = ("bare", "trailing", "leading", "both")


def cycle_grammar(gid, length, order, surround, edge, rnd):
    """One reference cycle c0 -> c1 -> ... -> c{length-1} -> c0.  Every rule consumes its own letter first (no left
    recursion); the edges run through the container `edge` (sequence / choice / optional / repetition) except the
    closing one of a pure-sequence cycle, which is optional so that the language is not empty.  `order` is the
    order of the definitions, `surround` adds rules outside the cycle before / after it: `leading` a rule that uses
    the cycle, `trailing` a leaf that gains nothing in any round of the reachability analysis."""
    names = [f"c{i}" for i in range(length)]
    rules = []
    for i, n in enumerate(names):
        nxt = names[(i + 1) % length]
        form = CYCLE_EDGES[edge].format(n=nxt)
        if edge == "seq" and i == length - 1:
            form = nxt + "?"
        rules.append(f'{n} = {{ "{chr(97 + i)}" ~ {form} }}')
    if order == "bottomup":
        rules.reverse()
    elif order == "rotated":
        k = max(1, length // 2)
        rules = rules[k:] + rules[:k]
    elif order == "shuffled":
        rnd.shuffle(rules)
    if surround in ("leading", "both"):
        rules.insert(0, 'user = { "u" ~ c0 ~ "v"? }')
    if surround in ("trailing", "both"):
        rules.append('leaf = { "z" }')
    return {"gid": gid, "text": "\n".join(rules) + "\n"}


def interlock_grammar(gid, n1, n2, order, trailing, rnd):
    """Two cycles p0 -> ... -> p{n1-1} -> p0 and p0 -> q1 -> ... -> q{n2-1} -> p0 that share the rule p0."""
    rules = []
    for i in range(n1):
        nxt = f"p{(i + 1) % n1}"
        extra = " ~ q1?" if i == 0 and n2 > 1 else (" ~ p0?" if i == 0 else "")
        body = f'"{chr(97 + i)}" ~ ({nxt} | "!")' + extra
        rules.append(f"p{i} = {{ {body} }}")
    for j in range(1, n2):
        nxt = f"q{j + 1}" if j + 1 < n2 else "p0"
        rules.append(f'q{j} = {{ "{chr(109 + j)}" ~ {nxt}? }}')
    if order == "bottomup":
        rules.reverse()
    elif order == "shuffled":
        rnd.shuffle(rules)
    if trailing:
        rules.append('leaf = { "z" }')
    return {"gid": gid, "text": "\n".join(rules) + "\n"}


def cycle_family(tier, seed):
    """Systematic cycle shapes for the boxing analysis: cycle length 1..6 x definition order x rules outside the
    cycle x container of the edges, plus two interlocking cycles sharing a rule.  quick: the container rotates with
    the other parameters and the long top-down shapes get every container; thorough: the full product."""
    rnd = random.Random(seed ^ 0xC7C1E)
    gs, seen = [], set()

    def add(g):
        if g["text"] not in seen:
            seen.add(g["text"])
            gs.append(g)
    kinds = list(CYCLE_EDGES)
    for length in range(1, 7):
        for oi, order in enumerate(CYCLE_ORDERS):
            for si, surround in enumerate(CYCLE_SURROUND):
                if tier == "quick":
                    edges = {kinds[(length + oi + si) % 4]}
                    if length >= 4 and order == "topdown" and surround in ("trailing", "both"):
                        edges = set(kinds)
                    if length == 2 and order == "bottomup" and surround == "trailing":
                        edges = set(kinds)
                else:
                    edges = set(kinds)
                for edge in kinds:
                    if edge in edges:
                        add(cycle_grammar(f"y_l{length}{order[:3]}_{surround[:4]}_{edge}", length, order, surround, edge, rnd))
    for (n1, n2) in ((2, 3), (3, 4), (4, 4), (1, 4)):
        for order in ("topdown", "bottomup", "shuffled"):
            for trailing in (False, True):
                add(interlock_grammar(f"y_x{n1}{n2}{order[:3]}_{'t' if trailing else 'n'}", n1, n2, order, trailing, rnd))
    return gs


def placeholder(g):
    """Same gid and number of rules, trivially compiling: stands in for a grammar whose derive expansion does not
    compile under some option set, so that the rest of that option set's crates keeps building."""
    n = len(g["rules"])
    return dict(g, text="".join(f'zz{i} = {{ "x" }}\n' for i in range(n)), rules=[(f"zz{i}", "normal") for i in range(n)], placeholder=True)


def corpus_grammars(tier, seed):
    sysg = [g for g in corpus.systematic_grammars() if not g["gid"].startswith("s_kinds")]
    if tier != "quick":
        sysg += [g for g in corpus.systematic_grammars() if g["gid"] == "s_kinds_w"]
    nrand = 40 if tier == "quick" else 80
    nrec = 40 if tier == "quick" else 120
    gs = recursive_grammars() + cycle_family(tier, seed) + opt_probe_grammars() + documented_grammars() + sysg
    gs += corpus.random_grammars(seed, nrand)
    gs += [dict(g, gid=g["gid"].replace("g", "rec", 1)) for g in corpus.random_grammars(seed + 1, nrec, modes=("recursive",))]
    return gs


# ---------------------------------------------------------------------------------------------
# determinism: token stream of derive_typed_parser from separate processes

def build_runner():
    lock = os.path.join(RUNNER_DIR, "Cargo.lock")
    if not os.path.exists(lock):
        subprocess.check_call(["cp", "/repo/Cargo.lock", lock])
    p = subprocess.run(["cargo", "build", "--offline", "-q"], cwd=RUNNER_DIR, env=corpus.ENV, capture_output=True, text=True)
    if p.returncode != 0:
        raise RuntimeError("opts_runner does not build:\n" + p.stderr[-3000:])
    return RUNNER


def token_streams(grammars, optset, runner=None, file_dir=None):
    """One process: {gid: ("OK"|"PANIC", text)} and the raw stdout bytes.  `file_dir`: derive through
    `#[grammar = "<file>"]` (grammar files written there) instead of `grammar_inline`."""
    inp = "".join(f"{g['gid']}\t{corpus.hexs(g['text'])}\n" for g in grammars)
    env = dict(os.environ)
    env.pop("OPTS_RUNNER_FILE_DIR", None)
    if file_dir:
        os.makedirs(file_dir, exist_ok=True)
        env["OPTS_RUNNER_FILE_DIR"] = file_dir
    p = subprocess.run([runner or RUNNER, optset.attrs], input=inp.encode(), capture_output=True, env=env)
    out = {}
    for line in p.stdout.decode("utf-8", "replace").splitlines():
        f = line.split("\t", 2)
        if len(f) == 3:
            out[f[0]] = (f[1], f[2])
    return out, p.stdout, p.stderr.decode("utf-8", "replace")


RULE_SPLIT = ":: pest_typed :: rule ! ("
RULE_TAIL = re.compile(r", (true|false|INHERITED) , (Span|Expression|Both) , (true|false)\) ; impl <")


def boxed_flags(stream):
    """[(rule name, boxed)] read off the `rule!` invocations of a token stream."""
    res = []
    for chunk in stream.split(RULE_SPLIT)[1:]:
        name = chunk.split(" ", 1)[0]
        if name.startswith("r#"):
            name = name[2:]
        m = RULE_TAIL.search(chunk)
        res.append((name, m.group(3) if m else "?"))
    return res


def after_first_item(stream):
    """The token stream without its first item (`const _PEST_GRAMMAR_<name>: [&str; N] = […];`, the only place where the
    grammar source — inline text or `include_str!` of a file — shows)."""
    k = stream.find("] ; ")          # `… : [&'static str ; N] = […] ;` — the `;` inside the array type is followed by the length
    return stream[k + 4:] if k >= 0 else stream


def strip_boxing(stream):
    """The token stream with every storage decision erased: the `$boxed` argument of `rule!` and the
    getters' `& * self . content` / `& self . content`."""
    s = RULE_TAIL.sub(lambda m: f", {m.group(1)} , {m.group(2)} , BOXED) ; impl <", stream)
    return s.replace("let res = & * self . content ;", "let res = CONTENT ;").replace("let res = & self . content ;", "let res = CONTENT ;")


def storage_diff(a, b, limit=3):
    """Token-wise comparison of two token streams that may differ in the storage decision only.  Allowed differences:
    a `true)` / `false)` token against the other one (a boolean LAST argument of a macro invocation: the `$boxed` argument of
    `rule!`; `$atomicity` is followed by a comma and may not differ), and a dereference `*` that one
    side has directly after `&` (`&*self.content` against `&self.content`).  Returns the list of the first other
    differences (empty = equal up to storage); independent of local variable names, item order and argument counts."""
    ta, tb = a.split(" "), b.split(" ")
    i = j = 0
    out = []
    while i < len(ta) and j < len(tb):
        x, y = ta[i], tb[j]
        if x == y:
            i += 1; j += 1
        elif {x, y} == {"true)", "false)"}:          # `… , Both , true) ;`: the last argument of a macro invocation
            i += 1; j += 1
        elif x == "*" and i > 0 and ta[i - 1] == "&" and i + 1 < len(ta) and ta[i + 1] == y:
            i += 1
        elif y == "*" and j > 0 and tb[j - 1] == "&" and j + 1 < len(tb) and tb[j + 1] == x:
            j += 1
        else:
            out.append({"at": i, "left": " ".join(ta[max(0, i - 6):i + 6]), "right": " ".join(tb[max(0, j - 6):j + 6])})
            if len(out) >= limit:
                return out
            i += 1; j += 1
    if (len(ta) - i) != (len(tb) - j) and len(out) < limit:
        out.append({"at": i, "left": f"{len(ta) - i} tokens left", "right": f"{len(tb) - j} tokens left"})
    return out


def accessor_names(stream):
    """{rule: [accessor function names]} read off the `impl<'i, const INHERITED: usize> rule<'i, INHERITED> { … }` block that
    follows every `rule!` invocation."""
    res = {}
    for chunk in stream.split(RULE_SPLIT)[1:]:
        name = chunk.split(" ", 1)[0]
        if name.startswith("r#"):
            name = name[2:]
        res[name] = re.findall(r"pub fn (?:r#)?(\w+) < 's > \(& 's self\)", chunk)
    return res


# ---------------------------------------------------------------------------------------------
# one workspace, every option set

def emit_all(grammars, optsets, outdir, nbins, tag="", exclude=None):
    """Writes `outdir` as ONE cargo workspace: per option set a directory `<set>/` produced by
    corpus.emit_workspace(attrs=set.attrs) whose crates are renamed `c20<tag><set>_b<k>` (binary names must
    not collide with other suites in the shared target directory).  `exclude` = {set name: gids}: those grammars are
    replaced by a placeholder in that option set only.  Returns {set name: (prefix, where)}."""
    os.makedirs(outdir, exist_ok=True)
    members = []
    res = {}
    keep = set()
    for s in optsets:
        sub = os.path.join(outdir, s.name)
        ex = (exclude or {}).get(s.name, ())
        where = corpus.emit_workspace([placeholder(g) if g["gid"] in ex else g for g in grammars], sub, nbins, attrs=s.attrs, with_pest=False)
        os.remove(os.path.join(sub, "Cargo.toml"))          # not a workspace of its own
        lock = os.path.join(sub, "Cargo.lock")
        if os.path.exists(lock):
            os.remove(lock)
        prefix = f"c20{tag}{s.name}_b"
        for b in sorted(set(where.values())):
            toml = os.path.join(sub, f"b{b}", "Cargo.toml")
            t = open(toml).read()
            t2 = re.sub(r'(?m)^name = "b%d"$' % b, f'name = "{prefix}{b}"', t)
            if t2 != t:
                open(toml, "w").write(t2)
            members.append(f"{s.name}/b{b}")
        keep.add(s.name)
        res[s.name] = (prefix, where)
    # stale directories of earlier runs would not be members, but remove them to keep the tree small
    for d in os.listdir(outdir):
        p = os.path.join(outdir, d)
        if os.path.isdir(p) and d not in keep:
            subprocess.call(["rm", "-rf", p])
    ws = "[workspace]\nresolver = \"2\"\nmembers = [" + ", ".join(f'"{m}"' for m in members) + "]\n" + corpus.PROFILE
    path = os.path.join(outdir, "Cargo.toml")
    if not os.path.exists(path) or open(path).read() != ws:
        open(path, "w").write(ws)
    subprocess.check_call(["cp", "/repo/Cargo.lock", os.path.join(outdir, "Cargo.lock")])
    return res


def build_all(outdir):
    """cargo build of the whole workspace; on failure returns the crates that failed with rustc's message."""
    p = subprocess.run(["cargo", "build", "--offline", "-q", "--keep-going"], cwd=outdir, env=corpus.ENV, capture_output=True, text=True)
    return p.returncode, p.stderr


def failing_crates(stderr):
    """Names of the crates cargo could not compile."""
    return sorted(set(re.findall(r"could not compile `(c20\w+_b\d+)`", stderr)))


def error_blocks(stderr):
    """rustc diagnostics of level error, one string each."""
    parts = re.split(r"(?m)^(?=error|warning)", stderr)
    return [b for b in parts if b.startswith("error") and not b.startswith("error: could not compile")]


def blame(outdir, stderr):
    """{(set name, gid): rustc text}: the grammar modules (`pub mod t_<gid>`) that contain a source line an error
    diagnostic points at (`--> <set>/b<k>/src/main.rs:<line>`)."""
    out = {}
    cache = {}
    for blk in error_blocks(stderr):
        for sname, b, line in set(re.findall(r"--> (\w+)/b(\d+)/src/main\.rs:(\d+)", blk)):
            key = (sname, b)
            if key not in cache:
                try:
                    cache[key] = open(os.path.join(outdir, sname, f"b{b}", "src", "main.rs")).read().split("\n")
                except OSError:
                    cache[key] = []
            gid = None
            for l in cache[key][:int(line)]:
                m = re.match(r"pub mod t_(\w+) \{", l)
                if m:
                    gid = m.group(1)
            if gid:
                out.setdefault((sname, gid), blk[:1500])
    return out


def check_subset(grammars, optset, tag=""):
    """cargo check of one scratch crate holding `grammars` under `optset`; -> (compiles, stderr)."""
    ws = os.path.join(corpus.BUILD, f"ws_opts_bisect_{tag}")
    subprocess.call(["rm", "-rf", os.path.join(ws, "b0")])
    corpus.emit_workspace(grammars, ws, 1, attrs=optset.attrs, with_pest=False)
    toml = os.path.join(ws, "b0", "Cargo.toml")
    open(toml, "w").write(re.sub(r'(?m)^name = "b0"$', f'name = "c20{tag}bisect_b0"', open(toml).read()))
    p = subprocess.run(["cargo", "check", "--offline", "-q"], cwd=ws, env=corpus.ENV, capture_output=True, text=True)
    return p.returncode == 0, p.stderr


def bisect_guilty(grammars, optset, tag=""):
    """Grammars whose own derive expansion does not compile under `optset`: [(grammar, rustc text)]."""
    okk, err = check_subset(grammars, optset, tag)
    if okk:
        return []
    if len(grammars) == 1:
        return [(grammars[0], err)]
    half = len(grammars) // 2
    return bisect_guilty(grammars[:half], optset, tag) + bisect_guilty(grammars[half:], optset, tag)


RULE_REF = re.compile(r"super :: super :: rules :: (?:r#)?(\w+) ::")


def ref_edges(stream):
    """{rule: rules its emitted `rule!` type expression mentions} read off a token stream (explicit references
    only: the skip type `generics::Skipped<'i>` sits behind `AtomicRepeat`'s Vec)."""
    res = {}
    for chunk in stream.split(RULE_SPLIT)[1:]:
        name = chunk.split(" ", 1)[0]
        if name.startswith("r#"):
            name = name[2:]
        m = RULE_TAIL.search(chunk)
        body = chunk[:m.start()] if m else chunk
        res[name] = sorted(set(RULE_REF.findall(body)))
    return res


def unboxed_cycle(edges, boxed):
    """A cycle of the reference graph that runs through un-boxed rules only, or None.
    edges: {rule: [rules]}, boxed: {rule: "true"|"false"}."""
    free = {r for r in edges if boxed.get(r) == "false"}
    color = {}
    stack = []

    def dfs(r):
        color[r] = 1
        stack.append(r)
        for q in edges.get(r, ()):
            if q not in free:
                continue
            if color.get(q) == 1:
                return stack[stack.index(q):] + [q]
            if q not in color:
                c = dfs(q)
                if c:
                    return c
        stack.pop()
        color[r] = 2
        return None
    for r in sorted(free):
        if r not in color:
            c = dfs(r)
            if c:
                return c
    return None


# ---------------------------------------------------------------------------------------------
# pest_meta 2.7.14's optimizer passes on s-expressions (lists as produced by corpus.parse_sexp)

UNARY = ("pos", "neg", "opt", "rep", "reponce", "push", "restore")
COUNTED = ("repexact", "repmin", "repmax", "repminmax")


def children_map(e, f):
    k = e[0]
    if k in UNARY:
        return [k, f(e[1])]
    if k in ("seq", "choice"):
        return [k, f(e[1]), f(e[2])]
    if k in COUNTED:
        return [k, f(e[1])] + e[2:]
    return e


def top_down(e, f):
    e = f(e)
    return children_map(e, lambda c: top_down(c, f))


def bottom_up(e, f):
    return f(children_map(e, lambda c: bottom_up(c, f)))


def p_rotate(e, kind, rules):
    def rot(e):
        if e[0] in ("seq", "choice") and e[1][0] == e[0]:
            k = e[0]
            return rot([k, e[1][1], [k, e[1][2], e[2]]])
        return e
    return top_down(e, rot)


def p_skip(e, kind, rules):
    if kind != "atomic":
        return e

    def populate(e, choices):
        if e[0] == "choice":
            l, r = e[1], e[2]
            if l[0] == "str":
                return populate(r, choices + [l[1]])
            if l[0] == "ident":
                inl = populate(rules[l[1]], []) if l[1] in rules else None
                if inl is not None and inl[0] == "skip":
                    return populate(r, choices + inl[1:])
                return None
            return None
        if e[0] == "str":
            return ["skip"] + choices + [e[1]]
        if e[0] == "ident":
            return populate(rules[e[1]], choices) if e[1] in rules else None
        return None

    def f(e):
        if e[0] == "rep" and e[1][0] == "seq" and e[1][1][0] == "neg" and e[1][2] == ["ident", "ANY"]:
            r = populate(e[1][1][1], [])
            if r is not None:
                return r
        return e
    return top_down(e, f)


def _seq_of(items):
    rep = None
    for it in reversed(items):
        rep = it if rep is None else ["seq", it, rep]
    return rep


def p_unroll(e, kind, rules):
    def f(e):
        k = e[0]
        if k == "reponce":
            return ["seq", e[1], ["rep", e[1]]]
        if k == "repexact":
            return _seq_of([e[1]] * int(e[2]))
        if k == "repmin":
            return _seq_of([e[1]] * int(e[2]) + [["rep", e[1]]])
        if k == "repmax":
            return _seq_of([["opt", e[1]]] * int(e[2]))
        if k == "repminmax":
            mn, mx = int(e[2]), int(e[3])
            return _seq_of([e[1] if i <= mn else ["opt", e[1]] for i in range(1, mx + 1)])
        return e
    return bottom_up(e, f)


def _cat(a, b):
    return corpus.hexs(corpus.unhex(a) + corpus.unhex(b))


def p_concatenate(e, kind, rules):
    if kind != "atomic":
        return e

    def f(e):
        if e[0] == "seq":
            l, r = e[1], e[2]
            if l[0] == "str" and r[0] == "str":
                return ["str", _cat(l[1], r[1])]
            if l[0] == "insens" and r[0] == "insens":
                return ["insens", _cat(l[1], r[1])]
        return e
    return bottom_up(e, f)


def p_factor(e, kind, rules):
    def f(e):
        if e[0] == "choice":
            l, r = e[1], e[2]
            if l[0] == "seq" and r[0] == "seq":
                if l[1] == r[1]:
                    return ["seq", l[1], ["choice", l[2], r[2]]]
                return e
            if l[0] == "seq" and kind in ("atomic", "compound"):
                if l[1] == r:
                    return ["seq", l[1], ["opt", l[2]]]
                return e
            if r[0] == "seq":
                if l == r[1]:
                    return l
                return e
        return e
    return top_down(e, f)


def p_list(e, kind, rules):
    def f(e):
        if e[0] == "seq" and e[1][0] == "rep" and e[1][1][0] == "seq":
            l1, l2, r = e[1][1][1], e[1][1][2], e[2]
            if l1 == r:
                return ["seq", l1, ["rep", ["seq", l2, r]]]
        return e
    return bottom_up(e, f)


def p_restore(e, kind, rules_opt):
    def modifies(e, cache):
        # iter_top_down().any(..): OptimizedExprTopDownIterator descends into Seq / Choice / PosPred / NegPred / Rep /
        # Opt / Push only; a RestoreOnErr the pass has just built (bottom-up) is yielded but not entered
        k = e[0]
        if k == "restore":
            return False
        if k == "push":
            return True
        if k == "ident":
            n = e[1]
            if n in ("DROP", "POP"):
                return True
            if n in cache:
                if cache[n] is None:
                    cache[n] = False
                    return False
                return cache[n]
            cache[n] = None
            res = modifies(rules_opt[n], cache) if n in rules_opt else False
            cache[n] = res
            return res
        if k in UNARY or k in COUNTED:
            return modifies(e[1], cache)
        if k in ("seq", "choice"):
            return modifies(e[1], cache) or modifies(e[2], cache)
        return False

    def wrap(c):
        return ["restore", c] if modifies(c, {}) else c

    def f(e):
        if e[0] in ("opt", "rep"):
            return [e[0], wrap(e[1])]
        if e[0] == "choice":
            return ["choice", wrap(e[1]), wrap(e[2])]
        return e
    return bottom_up(e, f)


PASSES = [("rotate", p_rotate), ("skip", p_skip), ("unroll", p_unroll), ("concatenate", p_concatenate),
          ("factor", p_factor), ("list", p_list)]


def pass_stages(sx):
    """sx = parsed `(grammar gid (rule name kind opt raw) ...)`.  Returns [(stage name, {rule: expr})]:
    stage 0 is the raw AST, each further stage applies one more of pest_meta's passes to every rule, the
    last one (`restore`) should be pest_meta's own output."""
    rules = [(r[1], r[2], r[4]) for r in sx[2:]]
    raw_map = {n: e for n, _, e in rules}
    stages = [("raw", dict(raw_map))]
    cur = dict(raw_map)
    for name, fn in PASSES:
        cur = {n: fn(cur[n], k, raw_map) for n, k, _ in rules}
        stages.append((name, dict(cur)))
    # `restore_on_err` looks rules up in the map of the *optimized* rules (before restoring)
    pre = dict(cur)
    cur = {n: p_restore(pre[n], k, pre) for n, k, _ in rules}
    stages.append(("restore", cur))
    return stages


def show_sexp(e):
    if isinstance(e, list):
        return "(" + " ".join(show_sexp(c) for c in e) + ")"
    return str(e)


def stage_grammar_sexp(sx, gid, exprs):
    """A `(grammar …)` line whose optimized slot holds the given stage."""
    parts = [f"(grammar {gid}"]
    for r in sx[2:]:
        parts.append(f" (rule {r[1]} {r[2]} {show_sexp(exprs[r[1]])} {show_sexp(r[4])})")
    return "".join(parts) + ")"


# ---------------------------------------------------------------------------------------------
# syntactic tests for the two known patterns (on the raw AST)

def has_lister_pattern(e):
    """`(l1 ~ l2)* ~ r` with `l1 == r` after rotation (what `lister::list` rewrites)."""
    found = []

    def f(x):
        if x[0] == "seq" and x[1][0] == "rep" and x[1][1][0] == "seq" and x[1][1][1] == x[2]:
            found.append(x)
        return x
    bottom_up(p_unroll(p_rotate(e, "normal", {}), "normal", {}), f)
    return bool(found)


def has_unrolled_rep(e):
    """contains `e+` or a counted repetition (what `unroller::unroll` rewrites into sequences)."""
    if isinstance(e, list):
        if e[0] in ("reponce",) + COUNTED:
            return True
        return any(has_unrolled_rep(c) for c in e[1:])
    return False


def has_inverted_minmax(e):
    """contains `e{n,m}` with n > m (pest_meta accepts it; `unroll` turns it into exactly m copies of `e`)."""
    if isinstance(e, list):
        if e[0] == "repminmax" and int(e[2]) > int(e[3]):
            return True
        return any(has_inverted_minmax(c) for c in e[1:])
    return False


def skip_defined(sx):
    return any(r[1] in ("WHITESPACE", "COMMENT") for r in sx[2:])
