//! text_runner — correspondence / oracle runner for the text layer (properties C12, C13, C14).
//!
//! Reads one case per stdin line, prints one line of tab-separated `key=value` observables:
//!
//!   text w   <hex>                      display widths (`width_cjk`) of the characters of the string
//!   text c12 <hex>                      Position::new / line_col / line_of, pest-typed (`t.*`) and pest 2.7.14 (`p.*`)
//!   text c13 <hex> <v|d>                Span::new / as_str / split / lines / lines_span / get / merge_spans, `t.*` and `p.*`
//!   text c14 <hex> <v|d> <cp:w,...>     Display of every span and position (default and bracketing FormatOption) and
//!                                       the verdict of an independent renderer-oracle (`cls.*`)
//!
//! Strings are hex-encoded UTF-8 ("-" is the empty string).  With `d` (digest) every bulky field is
//! replaced by `#` + FNV-1a-64 of its verbose value; the Lean `model_driver` prints the same `t.*`
//! fields in the same canonical format for the same case lines.  Every call into the libraries runs
//! under `catch_unwind`; a panic is reported as `P` / `panic`.
//!
//! `FormatOption` lives in a private module of pest_typed and is not re-exported, so a custom option
//! cannot be built by a dependent crate.  With the (default) feature `srcincl` the three source files
//! under test are additionally compiled into this crate from /repo's working tree (`#[path]`), which
//! makes `FormatOption::new` reachable; the bracketing option is run on that copy (`t.sb`, `t.pb`),
//! the default option on the real crate (`t.sd`, `t.pd`).
#[cfg(feature = "srcincl")]
extern crate alloc;
#[cfg(feature = "srcincl")]
#[allow(dead_code, unused_imports, unexpected_cfgs, clippy::all)]
#[path = "/repo/main/src/formatter.rs"]
mod formatter;
#[cfg(feature = "srcincl")]
#[allow(dead_code, unused_imports, unexpected_cfgs, clippy::all)]
#[path = "/repo/main/src/position.rs"]
mod position;
#[cfg(feature = "srcincl")]
#[allow(dead_code, unused_imports, unexpected_cfgs, clippy::all)]
#[path = "/repo/main/src/span.rs"]
mod span;
#[cfg(feature = "srcincl")]
use position::Position;
#[cfg(feature = "srcincl")]
use span::Span;

use std::io::{BufRead, Write};
use std::ops::Bound;
use std::panic::{catch_unwind, AssertUnwindSafe};
use unicode_width::{UnicodeWidthChar, UnicodeWidthStr};

fn hex(s: &str) -> String {
    if s.is_empty() {
        return "-".into();
    }
    s.bytes().map(|b| format!("{:02x}", b)).collect()
}
fn unhex(s: &str) -> String {
    if s == "-" {
        return String::new();
    }
    let b: Vec<u8> = (0..s.len()).step_by(2).map(|i| u8::from_str_radix(&s[i..i + 2], 16).unwrap()).collect();
    String::from_utf8(b).unwrap()
}
fn fnv(s: &str) -> String {
    let mut h: u64 = 0xcbf29ce484222325;
    for b in s.bytes() {
        h ^= b as u64;
        h = h.wrapping_mul(0x100000001b3);
    }
    format!("#{:016x}", h)
}
fn guard<T>(f: impl FnOnce() -> T) -> Option<T> {
    catch_unwind(AssertUnwindSafe(f)).ok()
}

struct Out {
    digest: bool,
    buf: String,
}
impl Out {
    fn put(&mut self, key: &str, val: &str) {
        if !self.buf.is_empty() {
            self.buf.push('\t');
        }
        self.buf.push_str(key);
        self.buf.push('=');
        if self.digest && val.len() > 24 {
            self.buf.push_str(&fnv(val));
        } else {
            self.buf.push_str(val);
        }
    }
    /// never digested (verdicts)
    fn raw(&mut self, key: &str, val: &str) {
        if !self.buf.is_empty() {
            self.buf.push('\t');
        }
        self.buf.push_str(key);
        self.buf.push('=');
        self.buf.push_str(val);
    }
}

fn boundaries(s: &str) -> Vec<usize> {
    (0..=s.len()).filter(|i| s.is_char_boundary(*i)).collect()
}
fn off(base: &str, sub: &str) -> usize {
    sub.as_ptr() as usize - base.as_ptr() as usize
}

// ------------------------------------------------------------------------------------------------
// C12

macro_rules! c12_side {
    ($out:expr, $pfx:expr, $Pos:path, $s:expr) => {{
        let s: &str = $s;
        let mut new = String::new();
        for p in 0..=s.len() + 1 {
            new.push(match guard(|| <$Pos>::new(s, p).map(|x| x.pos())) {
                None => 'P',
                Some(None) => '0',
                Some(Some(q)) => if q == p { '1' } else { 'X' },
            });
        }
        let mut lc = vec![];
        let mut lo = vec![];
        for p in boundaries(s) {
            lc.push(match guard(|| <$Pos>::new(s, p).unwrap().line_col()) {
                None => "P".to_string(),
                Some((l, c)) => format!("{}:{}", l, c),
            });
            lo.push(match guard(|| { let l = <$Pos>::new(s, p).unwrap().line_of(); (off(s, l), l.len()) }) {
                None => "P".to_string(),
                Some((o, n)) => format!("{}:{}", o, o + n),
            });
        }
        $out.put(&format!("{}.new", $pfx), &new);
        $out.put(&format!("{}.lc", $pfx), &lc.join(","));
        $out.put(&format!("{}.lo", $pfx), &lo.join(","));
    }};
}

fn c12(s: &str, out: &mut Out) {
    c12_side!(out, "t", pest_typed::Position, s);
    c12_side!(out, "p", pest::Position, s);
}

// ------------------------------------------------------------------------------------------------
// C13

fn mk_bound(kind: char, x: usize) -> Bound<usize> {
    match kind {
        'i' => Bound::Included(x),
        'e' => Bound::Excluded(x),
        _ => Bound::Unbounded,
    }
}

macro_rules! c13_side {
    ($out:expr, $pfx:expr, $Span:path, $merge:path, $s:expr) => {{
        let s: &str = $s;
        let n = s.len();
        let mut new = String::new();
        for a in 0..=n + 1 {
            for b in 0..=n + 1 {
                new.push(match guard(|| <$Span>::new(s, a, b).map(|x| (x.start(), x.end()))) {
                    None => 'P',
                    Some(None) => '0',
                    Some(Some(q)) => if q == (a, b) { '1' } else { 'X' },
                });
            }
        }
        let bs = boundaries(s);
        let mut spans = vec![];
        for &a in &bs { for &b in &bs { if b >= a { spans.push((a, b)); } } }
        let (mut strs, mut splits, mut lines, mut ls, mut gets) = (vec![], vec![], vec![], vec![], vec![]);
        for &(a, b) in &spans {
            let sp = <$Span>::new(s, a, b).unwrap();
            strs.push(match guard(|| sp.as_str()) { None => "P".to_string(), Some(t) => hex(t) });
            splits.push(match guard(|| { let (x, y) = sp.split(); (x.pos(), y.pos(), sp.start(), sp.end(), sp.start_pos().pos(), sp.end_pos().pos()) }) {
                None => "P".to_string(),
                Some((x, y, a1, b1, a2, b2)) => if (a1, b1, a2, b2) == (x, y, x, y) { format!("{}:{}", x, y) } else { "X".to_string() },
            });
            lines.push(match guard(|| sp.lines().map(hex).collect::<Vec<_>>().join(",")) { None => "P".to_string(), Some(t) => t });
            ls.push(match guard(|| sp.lines_span().map(|l| format!("{}:{}", l.start(), l.end())).collect::<Vec<_>>().join(",")) {
                None => "P".to_string(), Some(t) => t });
            let l = b - a;
            let mut g = vec![];
            for lo in ['i', 'e', 'u'] {
                for hi in ['i', 'e', 'u'] {
                    let xs: Vec<usize> = if lo == 'u' { vec![0] } else { (0..=l + 1).collect() };
                    let ys: Vec<usize> = if hi == 'u' { vec![0] } else { (0..=l + 1).collect() };
                    for &x in &xs { for &y in &ys {
                        g.push(match guard(|| sp.get((mk_bound(lo, x), mk_bound(hi, y))).map(|r| (r.start(), r.end()))) {
                            None => "P".to_string(),
                            Some(None) => "-".to_string(),
                            Some(Some((u, v))) => format!("{}:{}", u, v),
                        });
                    } }
                }
            }
            gets.push(g.join(","));
        }
        let mut merges = vec![];
        for &(a, b) in &spans { for &(c, d) in &spans {
            let x = <$Span>::new(s, a, b).unwrap();
            let y = <$Span>::new(s, c, d).unwrap();
            merges.push(match guard(|| $merge(&x, &y).map(|r| (r.start(), r.end()))) {
                None => "P".to_string(),
                Some(None) => "-".to_string(),
                Some(Some((u, v))) => format!("{}:{}", u, v),
            });
        } }
        let np = strs.iter().chain(&splits).chain(&lines).chain(&ls).map(|x| (x == "P") as usize).sum::<usize>()
            + gets.iter().map(|g| g.split(',').filter(|x| *x == "P").count()).sum::<usize>()
            + merges.iter().filter(|x| *x == "P").count()
            + new.matches('P').count();
        $out.raw(&format!("{}.np", $pfx), &np.to_string());
        $out.put(&format!("{}.new", $pfx), &new);
        $out.put(&format!("{}.str", $pfx), &strs.join(";"));
        $out.put(&format!("{}.split", $pfx), &splits.join(";"));
        $out.put(&format!("{}.lines", $pfx), &lines.join(";"));
        $out.put(&format!("{}.ls", $pfx), &ls.join(";"));
        $out.put(&format!("{}.get", $pfx), &gets.join(";"));
        $out.put(&format!("{}.merge", $pfx), &merges.join(","));
    }};
}

fn c13(s: &str, out: &mut Out) {
    c13_side!(out, "t", pest_typed::Span, pest_typed::merge_spans, s);
    c13_side!(out, "p", pest::Span, pest::merge_spans, s);
}

// ------------------------------------------------------------------------------------------------
// C14: independent oracle

fn vis(s: &str) -> String {
    s.chars()
        .map(|c| {
            let u = c as u32;
            if u < 0x20 { char::from_u32(0x2400 + u).unwrap() } else if u == 0x7f { '\u{2421}' } else { c }
        })
        .collect()
}
fn cw(c: char) -> usize {
    UnicodeWidthChar::width_cjk(c).unwrap_or(0)
}
fn sw(s: &str) -> usize {
    s.chars().map(cw).sum()
}
/// naive line table: a line ends after LF or at end of input; the empty input has one empty line
fn table(s: &str) -> Vec<(usize, usize)> {
    let mut v = vec![];
    let mut st = 0;
    for (i, c) in s.char_indices() {
        if c == '\n' {
            v.push((st, i + 1));
            st = i + 1;
        }
    }
    if st < s.len() || v.is_empty() {
        v.push((st, s.len()));
    }
    v
}
/// index of the line holding byte offset `o` (the last line at end of input)
fn line_at(t: &[(usize, usize)], o: usize) -> usize {
    for (i, (a, b)) in t.iter().enumerate() {
        if *a <= o && o < *b {
            return i;
        }
    }
    t.len() - 1
}

#[derive(Debug)]
enum Row {
    Gutter,
    Text(usize, String),
    Mark(usize, String),
    Dots,
    Unknown,
}
fn parse_rows(out: &str) -> Vec<Row> {
    let mut rows = vec![];
    let body = match out.strip_suffix('\n') { Some(b) => b, None => return vec![Row::Unknown] };
    for line in body.split('\n') {
        let bar = match line.find('|') { Some(b) => b, None => { rows.push(Row::Unknown); continue; } };
        let (head, tail) = (&line[..bar], &line[bar + 1..]);
        let num = head.trim_start_matches(' ');
        if !num.is_empty() {
            match num.strip_suffix(' ') {
                Some(d) if !d.is_empty() && d.bytes().all(|b| b.is_ascii_digit()) && tail.starts_with(' ') =>
                    rows.push(Row::Text(d.parse().unwrap(), tail[1..].to_string())),
                _ => rows.push(Row::Unknown),
            }
        } else if head.len() < 2 {
            rows.push(Row::Unknown);
        } else if tail.is_empty() {
            rows.push(Row::Gutter);
        } else if tail == " ..." {
            rows.push(Row::Dots);
        } else if let Some(rest) = tail.strip_prefix(' ') {
            let m = rest.trim_start_matches(' ');
            if m.chars().all(|c| c == '^' || c == 'v') {
                rows.push(Row::Mark(rest.len() - m.len(), m.to_string()));
            } else {
                rows.push(Row::Unknown);
            }
        } else {
            rows.push(Row::Unknown);
        }
    }
    rows
}

struct Expect {
    first: usize,     // 0-based line of the first character (or of the offset)
    first_col: usize, // byte column of the start in that line
    last: usize,      // 0-based line of the last character
    last_col: usize,  // byte column of the end in that line
    position: bool,
}

/// Does the parsed output satisfy the property for the expected lines and columns?
fn check(rows: &[Row], s: &str, t: &[(usize, usize)], e: &Expect) -> Result<(), &'static str> {
    if rows.iter().any(|r| matches!(r, Row::Unknown)) {
        return Err("unparsable-output");
    }
    let texts: Vec<(usize, &str)> = rows.iter().filter_map(|r| if let Row::Text(n, x) = r { Some((*n, x.as_str())) } else { None }).collect();
    if texts.is_empty() {
        return Err("no-line-shown");
    }
    for (n, x) in &texts {
        if *n < 1 || *n > t.len() {
            return Err("line-number-out-of-range");
        }
        let (a, b) = t[*n - 1];
        if vis(&s[a..b]) != *x {
            return Err("line-text-wrong");
        }
    }
    if texts.windows(2).any(|w| w[0].0 >= w[1].0) {
        return Err("line-numbers-not-increasing");
    }
    if texts[0].0 != e.first + 1 {
        return Err("first-line-wrong");
    }
    if texts[texts.len() - 1].0 != e.last + 1 {
        return Err("last-line-wrong");
    }
    let dots = rows.iter().filter(|r| matches!(r, Row::Dots)).count();
    if dots == 0 && texts.len() != e.last - e.first + 1 {
        return Err("line-missing-without-ellipsis");
    }
    let (fa, fb) = t[e.first];
    let (la, lb) = t[e.last];
    let fline = &s[fa..fb];
    let lline = &s[la..lb];
    if e.first == e.last {
        match rows {
            [Row::Gutter, Row::Text(..), Row::Mark(col, m)] => {
                if *col != sw(&vis(&fline[..e.first_col])) {
                    return Err("marker-column-wrong");
                }
                let want = if e.position { 1 } else { sw(&vis(&fline[e.first_col..e.last_col])) };
                if m.len() != want || m.contains('v') {
                    return Err("marker-length-wrong");
                }
            }
            _ => return Err("single-line-layout-wrong"),
        }
    } else {
        if dots > 1 {
            return Err("multi-line-layout-wrong");
        }
        match (&rows[0], &rows[rows.len() - 1]) {
            (Row::Mark(c0, m0), Row::Mark(c1, m1)) => {
                if rows[1..rows.len() - 1].iter().any(|r| !matches!(r, Row::Text(..) | Row::Dots)) {
                    return Err("multi-line-layout-wrong");
                }
                if m0 != "v" || *c0 != sw(&vis(&fline[..e.first_col])) {
                    return Err("start-marker-wrong");
                }
                if m1 != "^" || *c1 + 1 != sw(&vis(&lline[..e.last_col])) {
                    return Err("end-marker-wrong");
                }
            }
            _ => return Err("multi-line-layout-wrong"),
        }
    }
    Ok(())
}

/// `<S:..>`, `<M:..>`, `<N:..>` removed; also returns the concatenation of the `<S:..>` contents
fn unbracket(s: &str) -> Option<(String, String)> {
    let mut plain = String::new();
    let mut hl = String::new();
    let mut it = s.chars().peekable();
    let mut inside: Option<char> = None;
    while let Some(c) = it.next() {
        match (inside, c) {
            (None, '<') => {
                let k = it.next()?;
                if it.next()? != ':' || !"SMN".contains(k) { return None; }
                inside = Some(k);
            }
            (Some(_), '>') => inside = None,
            (Some(k), c) => { plain.push(c); if k == 'S' { hl.push(c); } }
            (None, c) => plain.push(c),
        }
    }
    if inside.is_some() { return None; }
    Some((plain, hl))
}

#[cfg(feature = "srcincl")]
fn bracket_opt() -> formatter::FormatOption<
    impl FnMut(&str, &mut String) -> std::fmt::Result,
    impl FnMut(&str, &mut String) -> std::fmt::Result,
    impl FnMut(&str, &mut String) -> std::fmt::Result,
> {
    use std::fmt::Write as _;
    formatter::FormatOption::new(
        |s: &str, f: &mut String| write!(f, "<S:{}>", s),
        |s: &str, f: &mut String| write!(f, "<M:{}>", s),
        |s: &str, f: &mut String| write!(f, "<N:{}>", s),
    )
}
/// Display with the bracketing option; `None` = panic.  Without `srcincl` there is no way to build a
/// custom option: the default rendering is bracketed by hand so that the protocol keeps its shape
/// (and `t.sb`/`t.pb` are then NOT evidence about custom options; `opt=default-only` says so).
#[cfg(feature = "srcincl")]
fn span_bracketed(s: &str, a: usize, b: usize) -> Option<String> {
    let r = guard(|| { let mut o = String::new(); Span::new(s, a, b).unwrap().display(&mut o, bracket_opt()).map(|_| o) });
    match r { None => None, Some(Ok(o)) => Some(o), Some(Err(_)) => Some("fmt::Error".to_string()) }
}
#[cfg(feature = "srcincl")]
fn pos_bracketed(s: &str, a: usize) -> Option<String> {
    let r = guard(|| { let mut o = String::new(); Position::new(s, a).unwrap().display(&mut o, bracket_opt()).map(|_| o) });
    match r { None => None, Some(Ok(o)) => Some(o), Some(Err(_)) => Some("fmt::Error".to_string()) }
}
#[cfg(not(feature = "srcincl"))]
fn span_bracketed(_s: &str, _a: usize, _b: usize) -> Option<String> { Some("unavailable".to_string()) }
#[cfg(not(feature = "srcincl"))]
fn pos_bracketed(_s: &str, _a: usize) -> Option<String> { Some("unavailable".to_string()) }
const HAVE_CUSTOM: bool = cfg!(feature = "srcincl");

fn show(r: &Option<String>) -> String {
    match r { None => "panic".to_string(), Some(x) => hex(x) }
}

fn c14(s: &str, out: &mut Out) {
    let t = table(s);
    let bs = boundaries(s);
    // is the string width the sum of the character widths on everything the formatter measures?
    let v = vis(s);
    let additive = UnicodeWidthStr::width_cjk(v.as_str()) == sw(&v)
        && t.iter().all(|(a, b)| { let l = vis(&s[*a..*b]); UnicodeWidthStr::width_cjk(l.as_str()) == sw(&l) });
    let (mut sd, mut sb, mut cs) = (vec![], vec![], vec![]);
    for &a in &bs {
        for &b in bs.iter().filter(|b| **b >= a) {
            let d = guard(|| pest_typed::Span::new(s, a, b).unwrap().to_string());
            let br = span_bracketed(s, a, b);
            let first = line_at(&t, a);
            let last = if b > a { line_at(&t, a + s[a..b].char_indices().last().unwrap().0) } else { first };
            let e = Expect { first, first_col: a - t[first].0, last, last_col: b - t[last].0, position: false };
            let cls: String = match (&d, &br) {
                (None, _) | (_, None) => if s.is_empty() { "panic-empty-input".into() } else { "panic".into() },
                (Some(d), Some(br)) => {
                    let rows = parse_rows(d);
                    let hl_ok = |rows: &[Row]| if !HAVE_CUSTOM { Ok(()) } else { match unbracket(br) {
                        None => Err("custom-option-unparsable"),
                        Some((plain, hl)) => {
                            if &plain != d { Err("custom-option-differs-from-default") }
                            else if !rows.iter().any(|r| matches!(r, Row::Dots)) && hl != vis(&s[a..b]) { Err("highlighted-text-wrong") }
                            else { Ok(()) }
                        }
                    } };
                    match check(&rows, s, &t, &e).and_then(|_| hl_ok(&rows)) {
                        Ok(()) => "ok".into(),
                        Err(why) => {
                            // the known shape: start on the first byte of a later line, drawn from the previous line
                            let later_line_start = a > 0 && a < s.len() && t[first].0 == a;
                            if later_line_start {
                                let plen = t[first - 1].1 - t[first - 1].0;
                                let e2 = if a == b {
                                    Expect { first: first - 1, first_col: plen, last: first - 1, last_col: plen, position: false }
                                } else {
                                    Expect { first: first - 1, first_col: plen, last, last_col: e.last_col, position: false }
                                };
                                match check(&rows, s, &t, &e2).and_then(|_| hl_ok(&rows)) {
                                    Ok(()) => "from-previous-line".into(),
                                    Err(w2) => format!("bad:{}/at-line-start:{}", why, w2),
                                }
                            } else {
                                format!("bad:{}", why)
                            }
                        }
                    }
                }
            };
            sd.push(show(&d));
            sb.push(show(&br));
            cs.push(cls);
        }
    }
    let (mut pd, mut pb, mut cp) = (vec![], vec![], vec![]);
    for &a in &bs {
        let d = guard(|| pest_typed::Position::new(s, a).unwrap().to_string());
        let br = pos_bracketed(s, a);
        let first = line_at(&t, a);
        let e = Expect { first, first_col: a - t[first].0, last: first, last_col: a - t[first].0, position: true };
        let cls: String = match (&d, &br) {
            (None, _) | (_, None) => if s.is_empty() { "panic-empty-input".into() } else { "panic".into() },
            (Some(d), Some(br)) => {
                if d.is_empty() {
                    if a == s.len() { "nothing-at-end-of-input".into() } else { "bad:nothing-rendered".into() }
                } else {
                    let rows = parse_rows(d);
                    let r = check(&rows, s, &t, &e).and_then(|_| if !HAVE_CUSTOM { Ok(()) } else { match unbracket(br) {
                        None => Err("custom-option-unparsable"),
                        Some((plain, hl)) => if &plain != d { Err("custom-option-differs-from-default") }
                            else if !hl.is_empty() { Err("highlighted-text-wrong") } else { Ok(()) },
                    } });
                    match r { Ok(()) => "ok".into(), Err(why) => format!("bad:{}", why) }
                }
            }
        };
        pd.push(show(&d));
        pb.push(show(&br));
        cp.push(cls);
    }
    out.put("t.sd", &sd.join(","));
    out.put("t.sb", &sb.join(","));
    out.put("t.pd", &pd.join(","));
    out.put("t.pb", &pb.join(","));
    out.raw("cls.s", &cs.join(","));
    out.raw("cls.p", &cp.join(","));
    out.raw("wadd", if additive { "1" } else { "0" });
    out.raw("opt", if HAVE_CUSTOM { "custom" } else { "default-only" });
}

fn widths(s: &str) -> String {
    let mut cs: Vec<char> = s.chars().chain(vis(s).chars()).collect();
    cs.sort();
    cs.dedup();
    cs.iter().map(|c| format!("{}:{}", *c as u32, cw(*c))).collect::<Vec<_>>().join(",")
}

fn main() {
    std::panic::set_hook(Box::new(|_| {}));
    let stdin = std::io::stdin();
    let stdout = std::io::stdout();
    let mut w = std::io::BufWriter::new(stdout.lock());
    for line in stdin.lock().lines() {
        let line = line.unwrap();
        let mut f: Vec<&str> = line.split_whitespace().collect();
        if f.first() == Some(&"text") {
            f.remove(0);
        }
        let mut out = Out { digest: f.get(2) == Some(&"d"), buf: String::new() };
        let r = guard(|| match f.as_slice() {
            ["w", h] => { let s = unhex(h); out.raw("w", &widths(&s)); }
            ["c12", h, ..] => c12(&unhex(h), &mut out),
            ["c13", h, ..] => c13(&unhex(h), &mut out),
            ["c14", h, ..] => c14(&unhex(h), &mut out),
            _ => out.raw("v", "badline"),
        });
        if r.is_none() {
            out.buf = "v=runner-panic".to_string();
        }
        writeln!(w, "{}", out.buf).unwrap();
    }
}
