//! text_runner — correspondence / oracle runner for the text layer (properties C12, C13, C14).
//!
//! Reads one case per stdin line, prints one line of tab-separated `key=value` observables:
//!
//!   text w   <hex>                      display widths (`width_cjk`) of the characters of the string
//!   text c12 <hex> [<p,p,...>]          (at every offset, or at the listed ones) Position::new / line_col / line_of, pest-typed (`t.*`) and pest 2.7.14 (`p.*`)
//!   text c13 <hex> <v|d>[l]             Span::new / as_str / split / lines / lines_span / get / merge_spans, `t.*` and `p.*`
//!                                       (`l`ight: without the get and merge matrices, for long texts)
//!   text c13x <hex>                     Span::get with bounds at the top of the usize range (`usize::MAX`, `MAX-1`, input
//!                                       length, …) in all nine bound forms and the native range forms, plus Span::new /
//!                                       Position::new at `usize::MAX`; pest-typed only (pest 2.7.14 overflows there), run
//!                                       in BOTH build profiles (`build=debug|release`): a panic is the outcome `P`
//!   text c13i <hexA> <hexB>             two DIFFERENT input objects (equal or different text): merge_spans across them,
//!                                       `==` and `Hash` of their spans, `t.*` and `p.*`
//!   text c14e <hex>                     Display of every span and position with four options one of whose callbacks FAILS
//!                                       (text written so far + Ok/Err), next to the full bracketed rendering
//!   text c14 <hex> <v|d> <cp:w,...> [<a:b,...;p,...>]
//!                                       Display of every (or of the listed) span and position (default and bracketing
//!                                       FormatOption) and the verdict of an independent renderer-oracle (`cls.*`)
//!
//! Strings are hex-encoded UTF-8 ("-" is the empty string).  With `d` (digest) every bulky field is
//! replaced by `#` + FNV-1a-64 of its verbose value; the Lean `model_driver` prints the same `t.*`
//! fields in the same canonical format for the same case lines.  Every call into the libraries runs
//! under `catch_unwind`; a panic is reported as `P` / `panic`.
//!
//! `FormatOption` lives in a private module of pest_typed and is not re-exported, so a custom option
//! cannot be built by a dependent crate.  With the (default) feature `srcincl` the three source files
//! under test are additionally compiled into this crate from /repo's working tree (`#[path]`), which
//! makes `FormatOption::new` reachable; the bracketing option is run on that copy (`t.sb`, `t.pb`),
//! the default option on the real crate (`t.sd`, `t.pd`).
#[cfg(feature = "srcincl")]
extern crate alloc;
#[cfg(feature = "srcincl")]
#[allow(dead_code, unused_imports, unexpected_cfgs, clippy::all)]
#[path = "/repo/main/src/formatter.rs"]
mod formatter;
#[cfg(feature = "srcincl")]
#[allow(dead_code, unused_imports, unexpected_cfgs, clippy::all)]
#[path = "/repo/main/src/position.rs"]
mod position;
#[cfg(feature = "srcincl")]
#[allow(dead_code, unused_imports, unexpected_cfgs, clippy::all)]
#[path = "/repo/main/src/span.rs"]
mod span;
#[cfg(feature = "srcincl")]
use position::Position;
#[cfg(feature = "srcincl")]
use span::Span;

use std::io::{BufRead, Write};
use std::ops::Bound;
use std::panic::{catch_unwind, AssertUnwindSafe};
use unicode_width::UnicodeWidthStr;

fn hex(s: &str) -> String {
    if s.is_empty() {
        return "-".into();
    }
    s.bytes().map(|b| format!("{:02x}", b)).collect()
}
fn unhex(s: &str) -> String {
    if s == "-" {
        return String::new();
    }
    let b: Vec<u8> = (0..s.len()).step_by(2).map(|i| u8::from_str_radix(&s[i..i + 2], 16).unwrap()).collect();
    String::from_utf8(b).unwrap()
}
fn fnv(s: &str) -> String {
    let mut h: u64 = 0xcbf29ce484222325;
    for b in s.bytes() {
        h ^= b as u64;
        h = h.wrapping_mul(0x100000001b3);
    }
    format!("#{:016x}", h)
}
fn guard<T>(f: impl FnOnce() -> T) -> Option<T> {
    catch_unwind(AssertUnwindSafe(f)).ok()
}

struct Out {
    digest: bool,
    buf: String,
}
impl Out {
    fn put(&mut self, key: &str, val: &str) {
        if !self.buf.is_empty() {
            self.buf.push('\t');
        }
        self.buf.push_str(key);
        self.buf.push('=');
        if self.digest && val.len() > 24 {
            self.buf.push_str(&fnv(val));
        } else {
            self.buf.push_str(val);
        }
    }
    /// never digested (verdicts)
    fn raw(&mut self, key: &str, val: &str) {
        if !self.buf.is_empty() {
            self.buf.push('\t');
        }
        self.buf.push_str(key);
        self.buf.push('=');
        self.buf.push_str(val);
    }
}

fn boundaries(s: &str) -> Vec<usize> {
    (0..=s.len()).filter(|i| s.is_char_boundary(*i)).collect()
}
fn off(base: &str, sub: &str) -> usize {
    sub.as_ptr() as usize - base.as_ptr() as usize
}

// ------------------------------------------------------------------------------------------------
// C12

macro_rules! c12_side {
    ($out:expr, $pfx:expr, $Pos:path, $s:expr, $sel:expr) => {{
        let s: &str = $s;
        let sel: &Option<Vec<usize>> = $sel;
        let mut new = String::new();
        // every byte offset 0..=len+1, or (long texts) the listed offsets and their successors
        let news: Vec<usize> = match sel { None => (0..=s.len() + 1).collect(), Some(v) => v.iter().flat_map(|q| [*q, *q + 1]).collect() };
        for p in news {
            new.push(match guard(|| <$Pos>::new(s, p).map(|x| x.pos())) {
                None => 'P',
                Some(None) => '0',
                Some(Some(q)) => if q == p { '1' } else { 'X' },
            });
        }
        let mut lc = vec![];
        let mut lo = vec![];
        for p in (match sel { None => boundaries(s), Some(v) => v.clone() }) {
            lc.push(match guard(|| <$Pos>::new(s, p).unwrap().line_col()) {
                None => "P".to_string(),
                // `from_start` is the position 0: same answers (else `X`)
                Some((l, c)) => if p == 0 && guard(|| { let f = <$Pos>::from_start(s); (f.pos(), f.line_col(), off(s, f.line_of()), f.line_of().len()) })
                    != guard(|| { let f = <$Pos>::new(s, 0).unwrap(); (0, f.line_col(), off(s, f.line_of()), f.line_of().len()) }) { "X".to_string() } else { format!("{}:{}", l, c) },
            });
            lo.push(match guard(|| { let l = <$Pos>::new(s, p).unwrap().line_of(); (off(s, l), l.len()) }) {
                None => "P".to_string(),
                Some((o, n)) => format!("{}:{}", o, o + n),
            });
        }
        $out.put(&format!("{}.new", $pfx), &new);
        $out.put(&format!("{}.lc", $pfx), &lc.join(","));
        $out.put(&format!("{}.lo", $pfx), &lo.join(","));
    }};
}

fn c12(s: &str, out: &mut Out, sel: Option<Vec<usize>>) {
    c12_side!(out, "t", pest_typed::Position, s, &sel);
    c12_side!(out, "p", pest::Position, s, &sel);
}

// ------------------------------------------------------------------------------------------------
// C13

fn mk_bound(kind: char, x: usize) -> Bound<usize> {
    match kind {
        'i' => Bound::Included(x),
        'e' => Bound::Excluded(x),
        _ => Bound::Unbounded,
    }
}

macro_rules! c13_side {
    ($out:expr, $pfx:expr, $Span:path, $merge:path, $s:expr, $light:expr) => {{
        let s: &str = $s;
        let light: bool = $light;
        let n = s.len();
        let mut new = String::new();
        for a in 0..=n + 1 {
            for b in 0..=n + 1 {
                new.push(match guard(|| <$Span>::new(s, a, b).map(|x| (x.start(), x.end()))) {
                    None => 'P',
                    Some(None) => '0',
                    Some(Some(q)) => if q == (a, b) { '1' } else { 'X' },
                });
            }
        }
        // first of all: the rest unwraps `Span::new` on every valid range; if that panics the case still carries this field
        $out.put(&format!("{}.new", $pfx), &new);
        let bs = boundaries(s);
        let mut spans = vec![];
        for &a in &bs { for &b in &bs { if b >= a { spans.push((a, b)); } } }
        let (mut strs, mut splits, mut lines, mut ls, mut gets) = (vec![], vec![], vec![], vec![], vec![]);
        for &(a, b) in &spans {
            let sp = <$Span>::new(s, a, b).unwrap();
            strs.push(match guard(|| sp.as_str()) { None => "P".to_string(), Some(t) => hex(t) });
            splits.push(match guard(|| { let (x, y) = sp.split(); (x.pos(), y.pos(), sp.start(), sp.end(), sp.start_pos().pos(), sp.end_pos().pos()) }) {
                None => "P".to_string(),
                Some((x, y, a1, b1, a2, b2)) => if (a1, b1, a2, b2) == (x, y, x, y) { format!("{}:{}", x, y) } else { "X".to_string() },
            });
            lines.push(match guard(|| sp.lines().map(hex).collect::<Vec<_>>().join(",")) { None => "P".to_string(), Some(t) => t });
            ls.push(match guard(|| sp.lines_span().map(|l| format!("{}:{}", l.start(), l.end())).collect::<Vec<_>>().join(",")) {
                None => "P".to_string(), Some(t) => t });
            let l = b - a;
            let mut g = vec![];
            for lo in (if light { vec![] } else { vec!['i', 'e', 'u'] }) {
                for hi in ['i', 'e', 'u'] {
                    let xs: Vec<usize> = if lo == 'u' { vec![0] } else { (0..=l + 1).collect() };
                    let ys: Vec<usize> = if hi == 'u' { vec![0] } else { (0..=l + 1).collect() };
                    for &x in &xs { for &y in &ys {
                        g.push(match guard(|| sp.get((mk_bound(lo, x), mk_bound(hi, y))).map(|r| (r.start(), r.end()))) {
                            None => "P".to_string(),
                            Some(None) => "-".to_string(),
                            Some(Some((u, v))) => format!("{}:{}", u, v),
                        });
                    } }
                }
            }
            gets.push(g.join(","));
        }
        let mut merges = vec![];
        for &(a, b) in (if light { &spans[..0] } else { &spans[..] }) { for &(c, d) in &spans {
            let x = <$Span>::new(s, a, b).unwrap();
            let y = <$Span>::new(s, c, d).unwrap();
            merges.push(match guard(|| $merge(&x, &y).map(|r| (r.start(), r.end()))) {
                None => "P".to_string(),
                Some(None) => "-".to_string(),
                Some(Some((u, v))) => format!("{}:{}", u, v),
            });
        } }
        let np = strs.iter().chain(&splits).chain(&lines).chain(&ls).map(|x| (x == "P") as usize).sum::<usize>()
            + gets.iter().map(|g| g.split(',').filter(|x| *x == "P").count()).sum::<usize>()
            + merges.iter().filter(|x| *x == "P").count()
            + new.matches('P').count();
        $out.raw(&format!("{}.np", $pfx), &np.to_string());
        $out.put(&format!("{}.str", $pfx), &strs.join(";"));
        $out.put(&format!("{}.split", $pfx), &splits.join(";"));
        $out.put(&format!("{}.lines", $pfx), &lines.join(";"));
        $out.put(&format!("{}.ls", $pfx), &ls.join(";"));
        if !light {
            $out.put(&format!("{}.get", $pfx), &gets.join(";"));
            $out.put(&format!("{}.merge", $pfx), &merges.join(","));
        }
    }};
}

fn c13(s: &str, out: &mut Out, light: bool) {
    c13_side!(out, "t", pest_typed::Span, pest_typed::merge_spans, s, light);
    c13_side!(out, "p", pest::Span, pest::merge_spans, s, light);
}

/// Bounds at the top of the `usize` range (and around the span / input length) for `get`.
fn big_bounds(l: usize, n: usize) -> Vec<usize> {
    let mut v = vec![];
    for x in [0, l, l + 1, n, n + 1, usize::MAX - 1, usize::MAX] {
        if !v.contains(&x) {
            v.push(x);
        }
    }
    v
}
fn show_opt(r: Option<Option<(usize, usize)>>) -> String {
    match r {
        None => "P".to_string(),
        Some(None) => "-".to_string(),
        Some(Some((u, v))) => format!("{}:{}", u, v),
    }
}

/// Spans with start > end, which the public `Position::span` builds without a check: what the operations do on them
/// (`as_str` / `get` panic — slicing; the line iterators yield nothing).
macro_rules! c13inv_side {
    ($out:expr, $pfx:expr, $Pos:path, $s:expr) => {{
        let s: &str = $s;
        let bs = boundaries(s);
        let mut iv = vec![];
        for &a in &bs { for &b in bs.iter().filter(|b| **b > a) {
            // with debug assertions `new_unchecked` / `new_internal` refuse such a span (debug_assert!): outcome `P`
            let inv = match guard(|| <$Pos>::new(s, b).unwrap().span(&<$Pos>::new(s, a).unwrap())) { None => { iv.push("P".to_string()); continue; } Some(x) => x };
            let se = format!("{}:{}", inv.start(), inv.end());
            let st = match guard(|| inv.as_str().to_string()) { None => "P".to_string(), Some(t) => hex(&t) };
            let ls = match guard(|| inv.lines_span().map(|l| format!("{}:{}", l.start(), l.end())).collect::<Vec<_>>().join("+")) { None => "P".to_string(), Some(t) => format!("[{}]", t) };
            let ln = match guard(|| inv.lines().map(hex).collect::<Vec<_>>().join("+")) { None => "P".to_string(), Some(t) => format!("[{}]", t) };
            let g = show_opt(guard(|| inv.get(..).map(|r| (r.start(), r.end()))));
            iv.push(format!("{}/{}/{}/{}/{}", se, st, ls, ln, g));
        } }
        $out.raw(&format!("{}.iv", $pfx), &iv.join(","));
    }};
}

/// `get` / `new` at the top of the usize range; pest-typed only (see the header).
fn c13x(s: &str, out: &mut Out) {
    use pest_typed::{Position, Span};
    let n = s.len();
    let bs = boundaries(s);
    let m = usize::MAX;
    let mut gx = vec![];
    let mut gn = vec![];
    for &a in &bs {
        for &b in bs.iter().filter(|b| **b >= a) {
            let sp = Span::new(s, a, b).unwrap();
            let bb = big_bounds(b - a, n);
            let mut g = vec![];
            for lo in ['i', 'e', 'u'] {
                for hi in ['i', 'e', 'u'] {
                    let xs: Vec<usize> = if lo == 'u' { vec![0] } else { bb.clone() };
                    let ys: Vec<usize> = if hi == 'u' { vec![0] } else { bb.clone() };
                    for &x in &xs { for &y in &ys {
                        g.push(show_opt(guard(|| sp.get((mk_bound(lo, x), mk_bound(hi, y))).map(|r| (r.start(), r.end())))));
                    } }
                }
            }
            gx.push(g.join(","));
            // the native range types: ..=MAX, MAX.., ..MAX, 0..=MAX, MAX..=MAX, 0..MAX, (Excluded(MAX), Unbounded)
            let f = |r: Option<Option<Span>>| show_opt(r.map(|o| o.map(|x| (x.start(), x.end()))));
            gn.push([
                f(guard(|| sp.get(..=m))), f(guard(|| sp.get(m..))), f(guard(|| sp.get(..m))), f(guard(|| sp.get(0..=m))),
                f(guard(|| sp.get(m..=m))), f(guard(|| sp.get(0..m))), f(guard(|| sp.get((Bound::Excluded(m), Bound::Unbounded)))),
            ].join(","));
        }
    }
    let f = |r: Option<Option<Span>>| show_opt(r.map(|o| o.map(|x| (x.start(), x.end()))));
    let news = [
        f(guard(|| Span::new(s, m, m))), f(guard(|| Span::new(s, 0, m))), f(guard(|| Span::new(s, m, 0))),
        f(guard(|| Span::new(s, n, m))), f(guard(|| Span::new(s, m - 1, m))),
        show_opt(guard(|| Position::new(s, m).map(|p| (p.pos(), p.pos())))),
        show_opt(guard(|| Position::new(s, m - 1).map(|p| (p.pos(), p.pos())))),
    ].join(",");
    // Span::new_full
    let nf = match guard(|| { let f = Span::new_full(s); (f.start(), f.end(), f.as_str() == s && f.get_input().as_ptr() == s.as_ptr()) }) {
        None => "P".to_string(),
        Some((u, v, true)) => format!("{}:{}", u, v),
        Some(_) => "X".to_string(),
    };
    out.raw("build", if cfg!(debug_assertions) { "debug" } else { "release" });
    out.raw("t.nf", &nf);
    c13inv_side!(out, "t", pest_typed::Position, s);
    c13inv_side!(out, "p", pest::Position, s);
    out.raw("t.gx", &gx.join(";"));
    out.raw("t.gn", &gn.join(";"));
    out.raw("t.nx", &news);
}

fn hash_of<T: std::hash::Hash>(t: &T) -> u64 {
    use std::hash::Hasher;
    let mut h = std::collections::hash_map::DefaultHasher::new();
    t.hash(&mut h);
    h.finish()
}

macro_rules! c13i_side {
    ($out:expr, $pfx:expr, $Span:path, $merge:path, $a:expr, $b:expr) => {{
        // two distinct, non-empty allocations (an empty `String` has no allocation: two of them would share the dangling
        // address and count as the same input)
        let ba = format!("{}#", $a);
        let bb = format!("{}#", $b);
        let sa: &str = &ba[..$a.len()];
        let sb: &str = &bb[..$b.len()];
        let spans = |s: &str| { let bs = boundaries(s); let mut v = vec![]; for &x in &bs { for &y in &bs { if y >= x { v.push((x, y)); } } } v };
        let (pa, pb) = (spans(sa), spans(sb));
        // merge across the two inputs; `a`/`b`/`?`: which input object the result points into
        let mut xm = vec![];
        let mut xe = String::new();
        let mut hash_ok = true;
        for &(a0, a1) in &pa { for &(b0, b1) in &pb {
            let x = <$Span>::new(sa, a0, a1).unwrap();
            let y = <$Span>::new(sb, b0, b1).unwrap();
            xm.push(match guard(|| $merge(&x, &y).map(|r| (r.start(), r.end(), r.get_input().as_ptr() == sa.as_ptr() && r.get_input().len() == sa.len(),
                                                           r.get_input().as_ptr() == sb.as_ptr() && r.get_input().len() == sb.len()))) {
                None => "P".to_string(),
                Some(None) => "-".to_string(),
                Some(Some((u, v, ia, ib))) => format!("{}:{}{}", u, v, if ia { "a" } else if ib { "b" } else { "?" }),
            });
            let e = x == y;
            xe.push(if e { '1' } else { '0' });
            if e && hash_of(&x) != hash_of(&y) { hash_ok = false; }
        } }
        // the same input object: equal iff the same offsets
        let mut se = String::new();
        for &(a0, a1) in &pa { for &(c0, c1) in &pa {
            let x = <$Span>::new(sa, a0, a1).unwrap();
            let y = <$Span>::new(sa, c0, c1).unwrap();
            let e = x == y;
            se.push(if e { '1' } else { '0' });
            if e && hash_of(&x) != hash_of(&y) { hash_ok = false; }
        } }
        $out.raw(&format!("{}.xm", $pfx), &xm.join(","));
        $out.raw(&format!("{}.xe", $pfx), &xe);
        $out.raw(&format!("{}.se", $pfx), &se);
        $out.raw(&format!("{}.hc", $pfx), if hash_ok { "1" } else { "0" });
    }};
}

fn c13i(a: &str, b: &str, out: &mut Out) {
    c13i_side!(out, "t", pest_typed::Span, pest_typed::merge_spans, a, b);
    c13i_side!(out, "p", pest::Span, pest::merge_spans, a, b);
}

// ------------------------------------------------------------------------------------------------
// C14: independent oracle

fn vis(s: &str) -> String {
    s.chars()
        .map(|c| {
            let u = c as u32;
            if u < 0x20 { char::from_u32(0x2400 + u).unwrap() } else if u == 0x7f { '\u{2421}' } else { c }
        })
        .collect()
}
/// Width of one character AS A STRING (`UnicodeWidthStr::width_cjk`, what the formatter measures); `wadd` checks that
/// the width of every measured text is the sum of these.
fn cw(c: char) -> usize {
    let mut b = [0u8; 4];
    UnicodeWidthStr::width_cjk(&*c.encode_utf8(&mut b))
}
fn sw(s: &str) -> usize {
    s.chars().map(cw).sum()
}
/// naive line table: a line ends after LF or at end of input; the empty input has one empty line
fn table(s: &str) -> Vec<(usize, usize)> {
    let mut v = vec![];
    let mut st = 0;
    for (i, c) in s.char_indices() {
        if c == '\n' {
            v.push((st, i + 1));
            st = i + 1;
        }
    }
    if st < s.len() || v.is_empty() {
        v.push((st, s.len()));
    }
    v
}
/// index of the line holding byte offset `o` (the last line at end of input)
fn line_at(t: &[(usize, usize)], o: usize) -> usize {
    for (i, (a, b)) in t.iter().enumerate() {
        if *a <= o && o < *b {
            return i;
        }
    }
    t.len() - 1
}

#[derive(Debug)]
enum Row {
    Gutter,
    Text(usize, String),
    Mark(usize, String),
    Dots,
    Unknown,
}
fn parse_rows(out: &str) -> Vec<Row> {
    let mut rows = vec![];
    let body = match out.strip_suffix('\n') { Some(b) => b, None => return vec![Row::Unknown] };
    for line in body.split('\n') {
        let bar = match line.find('|') { Some(b) => b, None => { rows.push(Row::Unknown); continue; } };
        let (head, tail) = (&line[..bar], &line[bar + 1..]);
        let num = head.trim_start_matches(' ');
        if !num.is_empty() {
            match num.strip_suffix(' ') {
                Some(d) if !d.is_empty() && d.bytes().all(|b| b.is_ascii_digit()) && tail.starts_with(' ') =>
                    rows.push(Row::Text(d.parse().unwrap(), tail[1..].to_string())),
                _ => rows.push(Row::Unknown),
            }
        } else if head.len() < 2 {
            rows.push(Row::Unknown);
        } else if tail.is_empty() {
            rows.push(Row::Gutter);
        } else if tail == " ..." {
            rows.push(Row::Dots);
        } else if let Some(rest) = tail.strip_prefix(' ') {
            let m = rest.trim_start_matches(' ');
            if m.chars().all(|c| c == '^' || c == 'v') {
                rows.push(Row::Mark(rest.len() - m.len(), m.to_string()));
            } else {
                rows.push(Row::Unknown);
            }
        } else {
            rows.push(Row::Unknown);
        }
    }
    rows
}

struct Expect {
    first: usize,     // 0-based line of the first character (or of the offset)
    first_col: usize, // byte column of the start in that line
    last: usize,      // 0-based line of the last character
    last_col: usize,  // byte column of the end in that line
    position: bool,
}

/// Does the parsed output satisfy the property for the expected lines and columns?
fn check(out: &str, rows: &[Row], s: &str, t: &[(usize, usize)], e: &Expect) -> Result<(), &'static str> {
    if rows.iter().any(|r| matches!(r, Row::Unknown)) {
        return Err("unparsable-output");
    }
    // the markers point at cells of the text rows only if the bars of all rows are in one column
    let mut bars = out.lines().map(|l| l.find('|'));
    let first = bars.next().flatten();
    if first.is_none() || bars.any(|b| b != first) {
        return Err("bars-not-aligned");
    }
    let texts: Vec<(usize, &str)> = rows.iter().filter_map(|r| if let Row::Text(n, x) = r { Some((*n, x.as_str())) } else { None }).collect();
    if texts.is_empty() {
        return Err("no-line-shown");
    }
    for (n, x) in &texts {
        if *n < 1 || *n > t.len() {
            return Err("line-number-out-of-range");
        }
        let (a, b) = t[*n - 1];
        if vis(&s[a..b]) != *x {
            return Err("line-text-wrong");
        }
    }
    if texts.windows(2).any(|w| w[0].0 >= w[1].0) {
        return Err("line-numbers-not-increasing");
    }
    if texts[0].0 != e.first + 1 {
        return Err("first-line-wrong");
    }
    if texts[texts.len() - 1].0 != e.last + 1 {
        return Err("last-line-wrong");
    }
    let dots = rows.iter().filter(|r| matches!(r, Row::Dots)).count();
    if dots == 0 && texts.len() != e.last - e.first + 1 {
        return Err("line-missing-without-ellipsis");
    }
    let (fa, fb) = t[e.first];
    let (la, lb) = t[e.last];
    let fline = &s[fa..fb];
    let lline = &s[la..lb];
    if e.first == e.last {
        match rows {
            [Row::Gutter, Row::Text(..), Row::Mark(col, m)] => {
                if *col != sw(&vis(&fline[..e.first_col])) {
                    return Err("marker-column-wrong");
                }
                let want = if e.position { 1 } else { sw(&vis(&fline[e.first_col..e.last_col])) };
                if m.len() != want || m.contains('v') {
                    return Err("marker-length-wrong");
                }
            }
            _ => return Err("single-line-layout-wrong"),
        }
    } else {
        if dots > 1 {
            return Err("multi-line-layout-wrong");
        }
        match (&rows[0], &rows[rows.len() - 1]) {
            (Row::Mark(c0, m0), Row::Mark(c1, m1)) => {
                if rows[1..rows.len() - 1].iter().any(|r| !matches!(r, Row::Text(..) | Row::Dots)) {
                    return Err("multi-line-layout-wrong");
                }
                if m0 != "v" || *c0 != sw(&vis(&fline[..e.first_col])) {
                    return Err("start-marker-wrong");
                }
                // under the last cell of the highlighted part; a part without any cell (zero-width characters only)
                // has its marker at the left edge
                if m1 != "^" || *c1 != sw(&vis(&lline[..e.last_col])).saturating_sub(1) {
                    return Err("end-marker-wrong");
                }
            }
            _ => return Err("multi-line-layout-wrong"),
        }
    }
    Ok(())
}

/// `<S:..>`, `<M:..>`, `<N:..>` removed; also returns the concatenation of the `<S:..>` contents
fn unbracket(s: &str) -> Option<(String, String)> {
    let mut plain = String::new();
    let mut hl = String::new();
    let mut it = s.chars().peekable();
    let mut inside: Option<char> = None;
    while let Some(c) = it.next() {
        match (inside, c) {
            (None, '<') => {
                let k = it.next()?;
                if it.next()? != ':' || !"SMN".contains(k) { return None; }
                inside = Some(k);
            }
            (Some(_), '>') => inside = None,
            (Some(k), c) => { plain.push(c); if k == 'S' { hl.push(c); } }
            (None, c) => plain.push(c),
        }
    }
    if inside.is_some() { return None; }
    Some((plain, hl))
}

#[cfg(feature = "srcincl")]
fn bracket_opt() -> formatter::FormatOption<
    impl FnMut(&str, &mut String) -> std::fmt::Result,
    impl FnMut(&str, &mut String) -> std::fmt::Result,
    impl FnMut(&str, &mut String) -> std::fmt::Result,
> {
    use std::fmt::Write as _;
    formatter::FormatOption::new(
        |s: &str, f: &mut String| write!(f, "<S:{}>", s),
        |s: &str, f: &mut String| write!(f, "<M:{}>", s),
        |s: &str, f: &mut String| write!(f, "<N:{}>", s),
    )
}
/// Display with the bracketing option; `None` = panic.  Without `srcincl` there is no way to build a
/// custom option: the default rendering is bracketed by hand so that the protocol keeps its shape
/// (and `t.sb`/`t.pb` are then NOT evidence about custom options; `opt=default-only` says so).
#[cfg(feature = "srcincl")]
fn span_bracketed(s: &str, a: usize, b: usize) -> Option<String> {
    let r = guard(|| { let mut o = String::new(); Span::new(s, a, b).unwrap().display(&mut o, bracket_opt()).map(|_| o) });
    match r { None => None, Some(Ok(o)) => Some(o), Some(Err(_)) => Some("fmt::Error".to_string()) }
}
#[cfg(feature = "srcincl")]
fn pos_bracketed(s: &str, a: usize) -> Option<String> {
    let r = guard(|| { let mut o = String::new(); Position::new(s, a).unwrap().display(&mut o, bracket_opt()).map(|_| o) });
    match r { None => None, Some(Ok(o)) => Some(o), Some(Err(_)) => Some("fmt::Error".to_string()) }
}
#[cfg(not(feature = "srcincl"))]
fn span_bracketed(_s: &str, _a: usize, _b: usize) -> Option<String> { Some("unavailable".to_string()) }
#[cfg(not(feature = "srcincl"))]
fn pos_bracketed(_s: &str, _a: usize) -> Option<String> { Some("unavailable".to_string()) }
const HAVE_CUSTOM: bool = cfg!(feature = "srcincl");

/// Display with an option one of whose callbacks FAILS (`Err(fmt::Error)` after writing a mark): `which` = 1: the span
/// callback, 2: the marker callback, 3: the number callback on `"|"`, 4: the number callback on a line number; the other
/// callbacks bracket.  Returns the text written so far and whether `display` returned `Ok`; `None` = panic.
#[cfg(feature = "srcincl")]
fn failing_display(s: &str, a: usize, b: Option<usize>, which: u8) -> Option<(String, bool)> {
    use std::fmt::Write as _;
    guard(|| {
        let mut o = String::new();
        let sf = |t: &str, f: &mut String| -> std::fmt::Result {
            if which == 1 { write!(f, "<S!")?; Err(std::fmt::Error) } else { write!(f, "<S:{}>", t) }
        };
        let mf = |t: &str, f: &mut String| -> std::fmt::Result {
            if which == 2 { write!(f, "<M!")?; Err(std::fmt::Error) } else { write!(f, "<M:{}>", t) }
        };
        let nf = |t: &str, f: &mut String| -> std::fmt::Result {
            if (which == 3 && t == "|") || (which == 4 && t != "|") { write!(f, "<N!")?; Err(std::fmt::Error) } else { write!(f, "<N:{}>", t) }
        };
        let opt = formatter::FormatOption::new(sf, mf, nf);
        let r = match b {
            Some(b) => Span::new(s, a, b).unwrap().display(&mut o, opt),
            None => Position::new(s, a).unwrap().display(&mut o, opt),
        };
        (o, r.is_ok())
    })
}
#[cfg(not(feature = "srcincl"))]
fn failing_display(_s: &str, _a: usize, _b: Option<usize>, _which: u8) -> Option<(String, bool)> { Some(("unavailable".to_string(), true)) }

/// `c14e`: every span and position with the four failing options, and the full bracketed rendering next to them.
fn c14e(s: &str, out: &mut Out) {
    let bs = boundaries(s);
    let fmt1 = |r: Option<(String, bool)>| match r { None => "panic".to_string(), Some((o, ok)) => format!("{}:{}", hex(&o), if ok { "K" } else { "E" }) };
    let (mut es, mut fs, mut ep, mut fp) = (vec![], vec![], vec![], vec![]);
    for &a in &bs {
        for &b in bs.iter().filter(|b| **b >= a) {
            es.push((1..=4).map(|w| fmt1(failing_display(s, a, Some(b), w))).collect::<Vec<_>>().join("|"));
            fs.push(show(&span_bracketed(s, a, b)));
        }
        ep.push((1..=4).map(|w| fmt1(failing_display(s, a, None, w))).collect::<Vec<_>>().join("|"));
        fp.push(show(&pos_bracketed(s, a)));
    }
    out.raw("t.es", &es.join(","));
    out.raw("t.ep", &ep.join(","));
    out.raw("full.s", &fs.join(","));
    out.raw("full.p", &fp.join(","));
    out.raw("opt", if HAVE_CUSTOM { "custom" } else { "default-only" });
}

fn show(r: &Option<String>) -> String {
    match r { None => "panic".to_string(), Some(x) => hex(x) }
}

fn c14(s: &str, out: &mut Out, sel: Option<&str>) {
    let t = table(s);
    let bs = boundaries(s);
    // is the string width the sum of the character widths on everything the formatter measures
    // (every line and, for lines of moderate length, every prefix and suffix of it)?
    let v = vis(s);
    let additive = UnicodeWidthStr::width_cjk(v.as_str()) == sw(&v)
        && t.iter().all(|(a, b)| {
            let l = vis(&s[*a..*b]);
            UnicodeWidthStr::width_cjk(l.as_str()) == sw(&l)
                && (l.len() > 96 || l.char_indices().all(|(i, _)| UnicodeWidthStr::width_cjk(&l[..i]) == sw(&l[..i])
                    && UnicodeWidthStr::width_cjk(&l[i..]) == sw(&l[i..])))
        });
    // which spans / positions: all of them, or the listed ones `a:b,a:b;p,p`
    let (span_list, pos_list): (Vec<(usize, usize)>, Vec<usize>) = match sel {
        None => {
            let mut v = vec![];
            for &a in &bs { for &b in bs.iter().filter(|b| **b >= a) { v.push((a, b)); } }
            (v, bs.clone())
        }
        Some(sel) => {
            let (sp, ps) = sel.split_once(';').unwrap_or((sel, ""));
            (sp.split(',').filter(|x| !x.is_empty()).map(|x| { let (a, b) = x.split_once(':').unwrap(); (a.parse().unwrap(), b.parse().unwrap()) }).collect(),
             ps.split(',').filter(|x| !x.is_empty()).map(|x| x.parse().unwrap()).collect())
        }
    };
    let (mut sd, mut sb, mut cs) = (vec![], vec![], vec![]);
    {
        for &(a, b) in &span_list {
            let d = guard(|| pest_typed::Span::new(s, a, b).unwrap().to_string());
            let br = span_bracketed(s, a, b);
            let first = line_at(&t, a);
            let last = if b > a { line_at(&t, a + s[a..b].char_indices().last().unwrap().0) } else { first };
            let e = Expect { first, first_col: a - t[first].0, last, last_col: b - t[last].0, position: false };
            let cls: String = match (&d, &br) {
                (None, _) | (_, None) => if s.is_empty() { "panic-empty-input".into() } else { "panic".into() },
                (Some(d), Some(br)) => {
                    let rows = parse_rows(d);
                    let hl_ok = |rows: &[Row]| if !HAVE_CUSTOM { Ok(()) } else { match unbracket(br) {
                        None => Err("custom-option-unparsable"),
                        Some((plain, hl)) => {
                            if &plain != d { Err("custom-option-differs-from-default") }
                            else if !rows.iter().any(|r| matches!(r, Row::Dots)) && hl != vis(&s[a..b]) { Err("highlighted-text-wrong") }
                            else { Ok(()) }
                        }
                    } };
                    match check(d, &rows, s, &t, &e).and_then(|_| hl_ok(&rows)) {
                        Ok(()) => "ok".into(),
                        Err(why) => {
                            // the known shape: start on the first byte of a later line, drawn from the previous line
                            let later_line_start = a > 0 && a < s.len() && t[first].0 == a;
                            if later_line_start {
                                let plen = t[first - 1].1 - t[first - 1].0;
                                let e2 = if a == b {
                                    Expect { first: first - 1, first_col: plen, last: first - 1, last_col: plen, position: false }
                                } else {
                                    Expect { first: first - 1, first_col: plen, last, last_col: e.last_col, position: false }
                                };
                                match check(d, &rows, s, &t, &e2).and_then(|_| hl_ok(&rows)) {
                                    Ok(()) => "from-previous-line".into(),
                                    Err(w2) => format!("bad:{}/at-line-start:{}", why, w2),
                                }
                            } else {
                                format!("bad:{}", why)
                            }
                        }
                    }
                }
            };
            sd.push(show(&d));
            sb.push(show(&br));
            cs.push(cls);
        }
    }
    let (mut pd, mut pb, mut cp) = (vec![], vec![], vec![]);
    for &a in &pos_list {
        let d = guard(|| pest_typed::Position::new(s, a).unwrap().to_string());
        let br = pos_bracketed(s, a);
        let first = line_at(&t, a);
        let e = Expect { first, first_col: a - t[first].0, last: first, last_col: a - t[first].0, position: true };
        let cls: String = match (&d, &br) {
            (None, _) | (_, None) => if s.is_empty() { "panic-empty-input".into() } else { "panic".into() },
            (Some(d), Some(br)) => {
                if d.is_empty() {
                    if a == s.len() { "nothing-at-end-of-input".into() } else { "bad:nothing-rendered".into() }
                } else {
                    let rows = parse_rows(d);
                    let r = check(d, &rows, s, &t, &e).and_then(|_| if !HAVE_CUSTOM { Ok(()) } else { match unbracket(br) {
                        None => Err("custom-option-unparsable"),
                        Some((plain, hl)) => if &plain != d { Err("custom-option-differs-from-default") }
                            else if !hl.is_empty() { Err("highlighted-text-wrong") } else { Ok(()) },
                    } });
                    match r { Ok(()) => "ok".into(), Err(why) => format!("bad:{}", why) }
                }
            }
        };
        pd.push(show(&d));
        pb.push(show(&br));
        cp.push(cls);
    }
    out.put("t.sd", &sd.join(","));
    out.put("t.sb", &sb.join(","));
    out.put("t.pd", &pd.join(","));
    out.put("t.pb", &pb.join(","));
    out.raw("cls.s", &cs.join(","));
    out.raw("cls.p", &cp.join(","));
    out.raw("wadd", if additive { "1" } else { "0" });
    out.raw("opt", if HAVE_CUSTOM { "custom" } else { "default-only" });
}

fn widths(s: &str) -> String {
    let mut cs: Vec<char> = s.chars().chain(vis(s).chars()).collect();
    cs.sort();
    cs.dedup();
    cs.iter().map(|c| format!("{}:{}", *c as u32, cw(*c))).collect::<Vec<_>>().join(",")
}

fn main() {
    std::panic::set_hook(Box::new(|_| {}));
    let stdin = std::io::stdin();
    let stdout = std::io::stdout();
    let mut w = std::io::BufWriter::new(stdout.lock());
    for line in stdin.lock().lines() {
        let line = line.unwrap();
        let mut f: Vec<&str> = line.split_whitespace().collect();
        if f.first() == Some(&"text") {
            f.remove(0);
        }
        let mode = f.get(2).copied().unwrap_or("");
        let mut out = Out { digest: matches!(f.first(), Some(&"c13") | Some(&"c14")) && mode.contains('d'), buf: String::new() };
        let r = guard(|| match f.as_slice() {
            ["w", h] => { let s = unhex(h); out.raw("w", &widths(&s)); }
            ["c12", h] => c12(&unhex(h), &mut out, None),
            ["c12", h, offs] => c12(&unhex(h), &mut out, Some(offs.split(',').map(|x| x.parse().unwrap()).collect())),
            ["c13", h, ..] => c13(&unhex(h), &mut out, mode.contains('l')),
            ["c13x", h] => c13x(&unhex(h), &mut out),
            ["c13i", a, b] => c13i(&unhex(a), &unhex(b), &mut out),
            ["c14e", h, ..] => c14e(&unhex(h), &mut out),
            ["c14", h, _, _, sel] => c14(&unhex(h), &mut out, Some(sel)),
            ["c14", h, ..] => c14(&unhex(h), &mut out, None),
            _ => out.raw("v", "badline"),
        });
        if r.is_none() {
            // keep what was answered before the panic (c13: the `new` matrix)
            out.raw("v", "runner-panic");
        }
        writeln!(w, "{}", out.buf).unwrap();
    }
}
