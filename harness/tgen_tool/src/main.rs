//! tgen_tool (tie T-gen, structure): runs /repo's generator AS A LIBRARY, parses the token stream it emits
//! with `syn` and re-reads every `rule!` invocation as a `Model.Node` term, printed in the S-expression
//! syntax of `harness/rawgen.py::grammar_sexp` (the syntax `Driver/Main.lean::toNode` reads).
//!
//! Nothing is recognised by its spelling alone: every path in an emitted type is RESOLVED by a small name
//! resolver over (a) the emitted module tree (`generics`, `rules_impl::rules`, `constant_wrappers`, `unicode`,
//! the `Rule` enum; `use`, `pub use … as …`, glob imports, type aliases with generic parameters) and (b) the
//! runtime crate's sources, parsed at run time from `$TGEN_RUNTIME_SRC` (default `/repo/main/src`): type
//! aliases (`ASCII_DIGIT = CharRange<'0','9'>`, `Rep<T,IGNORED,SKIP> = RepeatMin<Skipped<T,IGNORED,SKIP>,0>`, …),
//! re-exports, and the `seq!`/`choices!`/`unicode!` invocations that define `SeqN`/`ChoiceN`/the property types.
//! Only the meaning of the runtime's *structs* (`Str`, `CharRange`, `RepeatMin`, `Skipped`, …) is a fixed table
//! (their behaviour is what T-run / T-raw tie).  Whatever is not understood becomes `(unsupported <tokens>)`.
//!
//! stdin : `<gid>\t<hex grammar>\t<hex derive attributes>` per line
//! stdout: `<gid>\tOK\t(nodegrammar <gid> (skipped <node>) (rule <name> <atom> <emit> <boxed> <node>) … [(problem <what>) …])`
//!         or `<gid>\tPANIC\t<hex message>`
use quote::ToTokens;
use std::collections::HashMap;
use std::io::{self, BufRead, Write};
use std::str::FromStr;
use syn::ext::IdentExt;
use syn::parse::Parser;

// ------------------------------------------------------------------------------------------------
// S-expressions

#[derive(Clone, PartialEq, Debug)]
enum Sx {
    A(String),
    L(Vec<Sx>),
}
impl std::fmt::Display for Sx {
    fn fmt(&self, f: &mut std::fmt::Formatter<'_>) -> std::fmt::Result {
        match self {
            Sx::A(s) => write!(f, "{}", s),
            Sx::L(v) => {
                write!(f, "(")?;
                for (i, x) in v.iter().enumerate() {
                    if i > 0 {
                        write!(f, " ")?;
                    }
                    write!(f, "{}", x)?;
                }
                write!(f, ")")
            }
        }
    }
}
fn a(s: &str) -> Sx {
    Sx::A(s.to_string())
}
fn l(head: &str, rest: Vec<Sx>) -> Sx {
    let mut v = vec![a(head)];
    v.extend(rest);
    Sx::L(v)
}
/// One atom: no white space, no parentheses.
fn atomise(s: &str) -> String {
    let t: String = s
        .chars()
        .filter(|c| !c.is_whitespace())
        .map(|c| match c {
            '(' => '[',
            ')' => ']',
            c => c,
        })
        .collect();
    if t.is_empty() {
        "_".into()
    } else {
        t
    }
}
fn unsupported(what: &str) -> Sx {
    l("unsupported", vec![a(&atomise(what))])
}
fn hex(s: &str) -> String {
    if s.is_empty() {
        return "-".into();
    }
    s.bytes().map(|b| format!("{:02x}", b)).collect()
}
fn unhex(s: &str) -> String {
    if s == "-" || s.is_empty() {
        return String::new();
    }
    let b: Vec<u8> = (0..s.len() / 2).map(|i| u8::from_str_radix(&s[2 * i..2 * i + 2], 16).unwrap_or(b'?')).collect();
    String::from_utf8_lossy(&b).into_owned()
}

// ------------------------------------------------------------------------------------------------
// module trees

/// Structs defined through a macro this tool knows.
#[derive(Clone, PartialEq, Debug)]
enum MacroDef {
    Seq(usize),
    Choice(usize),
    CharBy(String),
    /// `rule_eoi!(NAME, RuleTy)`
    RuleEoi(syn::Type),
    Bad(String),
}

#[derive(Clone)]
struct RuleMac {
    name: String,
    rule_ty: syn::Type,
    rule_expr: syn::Expr,
    inner: syn::Type,
    ignored: syn::Type,
    atom: String,
    emit: String,
    boxed: String,
}

#[derive(Clone, Debug)]
struct UsePath {
    leading: bool,
    segs: Vec<String>,
}

#[derive(Default)]
struct Module {
    types: Vec<(String, syn::ItemType)>,
    structs: Vec<String>,
    enums: Vec<(String, Vec<String>)>,
    macro_defs: Vec<(String, MacroDef)>,
    rules: Vec<(String, RuleMac)>,
    mods: Vec<(String, Module)>,
    uses: Vec<(String, UsePath)>,
    globs: Vec<UsePath>,
    /// `impl … StringWrapper/StringArrayWrapper for X { const CONTENT … = … }`
    wrappers: Vec<(String, String, syn::Expr)>,
    problems: Vec<String>,
}

fn unraw(i: &syn::Ident) -> String {
    i.unraw().to_string()
}

fn flatten_use(tree: &syn::UseTree, prefix: &mut Vec<String>, leading: bool, m: &mut Module) {
    match tree {
        syn::UseTree::Path(p) => {
            prefix.push(unraw(&p.ident));
            flatten_use(&p.tree, prefix, leading, m);
            prefix.pop();
        }
        syn::UseTree::Name(n) => {
            let name = unraw(&n.ident);
            let mut segs = prefix.clone();
            if name == "self" {
                if let Some(last) = segs.last().cloned() {
                    m.uses.push((last, UsePath { leading, segs }));
                }
            } else {
                segs.push(name.clone());
                m.uses.push((name, UsePath { leading, segs }));
            }
        }
        syn::UseTree::Rename(r) => {
            let mut segs = prefix.clone();
            segs.push(unraw(&r.ident));
            m.uses.push((unraw(&r.rename), UsePath { leading, segs }));
        }
        syn::UseTree::Glob(_) => m.globs.push(UsePath { leading, segs: prefix.clone() }),
        syn::UseTree::Group(g) => {
            for t in &g.items {
                flatten_use(t, prefix, leading, m);
            }
        }
    }
}

fn parse_rule_macro(ts: proc_macro2::TokenStream) -> Result<RuleMac, String> {
    let p = |input: syn::parse::ParseStream| -> syn::Result<RuleMac> {
        let name: syn::Ident = input.call(syn::Ident::parse_any)?;
        input.parse::<syn::Token![,]>()?;
        while input.peek(syn::Lit) {
            input.parse::<syn::Lit>()?;
        }
        input.parse::<syn::Token![,]>()?;
        let rule_ty: syn::Type = input.parse()?;
        input.parse::<syn::Token![,]>()?;
        let rule_expr: syn::Expr = input.parse()?;
        input.parse::<syn::Token![,]>()?;
        let inner: syn::Type = input.parse()?;
        input.parse::<syn::Token![,]>()?;
        let ignored: syn::Type = input.parse()?;
        input.parse::<syn::Token![,]>()?;
        let atom: proc_macro2::TokenTree = input.parse()?;
        input.parse::<syn::Token![,]>()?;
        let emit: proc_macro2::TokenTree = input.parse()?;
        input.parse::<syn::Token![,]>()?;
        let boxed: proc_macro2::TokenTree = input.parse()?;
        if input.peek(syn::Token![,]) {
            input.parse::<syn::Token![,]>()?;
        }
        if !input.is_empty() {
            return Err(input.error("trailing tokens in rule!"));
        }
        Ok(RuleMac {
            name: unraw(&name),
            rule_ty,
            rule_expr,
            inner,
            ignored,
            atom: atom.to_string(),
            emit: emit.to_string(),
            boxed: boxed.to_string(),
        })
    };
    p.parse2(ts).map_err(|e| e.to_string())
}

/// `seq!(Seq2, 2, T0, 0, T1, 1,)` / `choices!(Choice2, choice2, 2, T0, _0, T1, _1,)` / `unicode!(X)` / `rule_eoi!(EOI, Ty)`
fn parse_known_macro(kind: &str, ts: proc_macro2::TokenStream) -> Option<(String, MacroDef)> {
    let toks: Vec<proc_macro2::TokenTree> = ts.clone().into_iter().collect();
    let groups: Vec<Vec<proc_macro2::TokenTree>> = toks
        .split(|t| matches!(t, proc_macro2::TokenTree::Punct(p) if p.as_char() == ','))
        .map(|g| g.to_vec())
        .filter(|g| !g.is_empty())
        .collect();
    let ident_of = |g: &Vec<proc_macro2::TokenTree>| -> Option<String> {
        if g.len() == 1 {
            if let proc_macro2::TokenTree::Ident(i) = &g[0] {
                return Some(i.unraw().to_string());
            }
        }
        None
    };
    let int_of = |g: &Vec<proc_macro2::TokenTree>| -> Option<usize> {
        if g.len() == 1 {
            if let proc_macro2::TokenTree::Literal(x) = &g[0] {
                let s = x.to_string();
                let s = s.trim_end_matches("usize");
                return s.parse().ok();
            }
        }
        None
    };
    match kind {
        "seq" => {
            let name = ident_of(groups.first()?)?;
            let n = groups.get(1).and_then(int_of);
            let pairs = groups.len().saturating_sub(2);
            let def = match n {
                Some(n) if pairs == 2 * n => MacroDef::Seq(n),
                _ => MacroDef::Bad(format!("seq!({})", ts)),
            };
            Some((name, def))
        }
        "choices" => {
            let name = ident_of(groups.first()?)?;
            let n = groups.get(2).and_then(int_of);
            let pairs = groups.len().saturating_sub(3);
            let def = match n {
                Some(n) if pairs == 2 * n => MacroDef::Choice(n),
                _ => MacroDef::Bad(format!("choices!({})", ts)),
            };
            Some((name, def))
        }
        "unicode" => {
            let name = ident_of(groups.first()?)?;
            if groups.len() == 1 {
                Some((name.clone(), MacroDef::CharBy(name)))
            } else {
                None
            }
        }
        "rule_eoi" => {
            let name = ident_of(groups.first()?)?;
            let rest: proc_macro2::TokenStream = groups.get(1)?.iter().cloned().collect();
            match syn::parse2::<syn::Type>(rest) {
                Ok(t) if groups.len() == 2 => Some((name, MacroDef::RuleEoi(t))),
                _ => Some((name, MacroDef::Bad(format!("rule_eoi!({})", ts)))),
            }
        }
        _ => None,
    }
}

/// `src_dir`: where `mod x;` declarations of this module are looked up (runtime crate only).
fn build_module(items: &[syn::Item], src_dir: Option<&std::path::Path>, generated: bool) -> Module {
    let mut m = Module::default();
    for it in items {
        match it {
            syn::Item::Type(t) => m.types.push((unraw(&t.ident), t.clone())),
            syn::Item::Struct(s) => m.structs.push(unraw(&s.ident)),
            syn::Item::Enum(e) => m.enums.push((unraw(&e.ident), e.variants.iter().map(|v| unraw(&v.ident)).collect())),
            syn::Item::Use(u) => {
                let mut prefix = vec![];
                flatten_use(&u.tree, &mut prefix, u.leading_colon.is_some(), &mut m);
            }
            syn::Item::Mod(md) => {
                let name = unraw(&md.ident);
                if let Some((_, items)) = &md.content {
                    let sub_dir = src_dir.map(|d| d.join(&name));
                    m.mods.push((name, build_module(items, sub_dir.as_deref(), generated)));
                } else if let Some(dir) = src_dir {
                    let f1 = dir.join(format!("{}.rs", name));
                    let f2 = dir.join(&name).join("mod.rs");
                    let (file, sub) = if f1.exists() { (f1, dir.join(&name)) } else { (f2, dir.join(&name)) };
                    match std::fs::read_to_string(&file).map_err(|e| e.to_string()).and_then(|s| syn::parse_file(&s).map_err(|e| e.to_string())) {
                        Ok(f) => m.mods.push((name, build_module(&f.items, Some(&sub), generated))),
                        Err(e) => m.problems.push(format!("cannot-load-module:{}:{}", file.display(), e)),
                    }
                }
            }
            syn::Item::Macro(mac) => {
                let kind = mac.mac.path.segments.last().map(|s| s.ident.to_string()).unwrap_or_default();
                match kind.as_str() {
                    "rule" if generated => match parse_rule_macro(mac.mac.tokens.clone()) {
                        Ok(r) => m.rules.push((r.name.clone(), r)),
                        Err(e) => m.problems.push(format!("rule!-not-understood:{}:{}", e, mac.mac.tokens)),
                    },
                    "seq" | "choices" | "unicode" | "rule_eoi" => {
                        if let Some((name, def)) = parse_known_macro(&kind, mac.mac.tokens.clone()) {
                            m.macro_defs.push((name, def));
                        } else if generated {
                            m.problems.push(format!("macro-not-understood:{}!:{}", kind, mac.mac.tokens));
                        }
                    }
                    "macro_rules" => {}
                    _ if generated => m.problems.push(format!("unknown-macro:{}", mac.mac.path.to_token_stream())),
                    _ => {}
                }
            }
            syn::Item::Impl(i) => {
                if let (Some((_, tr, _)), syn::Type::Path(tp)) = (&i.trait_, &*i.self_ty) {
                    let tname = tr.segments.last().map(|s| s.ident.to_string()).unwrap_or_default();
                    if tname == "StringWrapper" || tname == "StringArrayWrapper" {
                        let sname = tp.path.segments.last().map(|s| unraw(&s.ident)).unwrap_or_default();
                        for ii in &i.items {
                            if let syn::ImplItem::Const(c) = ii {
                                if c.ident == "CONTENT" {
                                    m.wrappers.push((sname.clone(), tname.clone(), c.expr.clone()));
                                }
                            }
                        }
                    }
                }
            }
            _ => {}
        }
    }
    m
}

// ------------------------------------------------------------------------------------------------
// name resolution

type Loc = (usize, Vec<String>); // (crate: 0 = emitted code, 1 = runtime crate; module path)

#[derive(Clone)]
#[allow(dead_code)]
enum Target {
    Alias(Loc, Box<syn::ItemType>),
    Struct(Loc, String),
    Macro(Loc, MacroDef),
    Rule(Loc, String),
    Enum(Loc, String),
    Mod(Loc),
    External(Vec<String>),
}

#[derive(Clone, PartialEq, Debug)]
enum Cv {
    Int(i128),
    Char(u32),
    Ident(String),
}

#[derive(Clone, PartialEq, Debug)]
enum Term {
    Node(Sx),
    /// `predefined_node::Skipped<T, IGNORED, SKIP>`: (T, IGNORED, SKIP)
    Skipped(Sx, Sx, Sx),
    Const(Cv),
    Wrapper(Vec<String>, bool),
    Bad(String),
}

struct World<'r> {
    generated: Module,
    runtime: &'r Module,
    /// (name of the const parameter of rule structs, its default) as declared by `declare_rule_struct!`
    rule_param: Result<(String, String), String>,
    rule_enum: Vec<String>,
    skipped: Option<Sx>,
}

const EXTERN: [&str; 3] = ["core", "std", "alloc"];

impl<'r> World<'r> {
    fn module(&self, loc: &Loc) -> Option<&Module> {
        let mut m: &Module = if loc.0 == 0 { &self.generated } else { self.runtime };
        for s in &loc.1 {
            m = &m.mods.iter().find(|(n, _)| n == s)?.1;
        }
        Some(m)
    }

    /// Everything called `name` in module `loc` (type namespace), following re-exports.
    fn lookup(&self, loc: &Loc, name: &str, depth: usize, first_segment: bool) -> Vec<Target> {
        let mut out = vec![];
        if depth > 40 {
            return out;
        }
        let m = match self.module(loc) {
            Some(m) => m,
            None => return out,
        };
        for (n, t) in &m.types {
            if n == name {
                out.push(Target::Alias(loc.clone(), Box::new(t.clone())));
            }
        }
        if m.structs.iter().any(|n| n == name) {
            out.push(Target::Struct(loc.clone(), name.to_string()));
        }
        if m.enums.iter().any(|(n, _)| n == name) {
            out.push(Target::Enum(loc.clone(), name.to_string()));
        }
        for (n, d) in &m.macro_defs {
            if n == name {
                out.push(Target::Macro(loc.clone(), d.clone()));
            }
        }
        if m.rules.iter().any(|(n, _)| n == name) {
            out.push(Target::Rule(loc.clone(), name.to_string()));
        }
        if m.mods.iter().any(|(n, _)| n == name) {
            let mut p = loc.1.clone();
            p.push(name.to_string());
            out.push(Target::Mod((loc.0, p)));
        }
        for (n, u) in &m.uses {
            if n == name {
                // `use a::b as name`: a self-reference (`pub use rules_impl::rules as rules`) is cut by `depth`
                out.extend(self.resolve(loc, &u.segs, u.leading, depth + 1));
            }
        }
        if out.is_empty() {
            for g in &m.globs {
                for t in self.resolve(loc, &g.segs, g.leading, depth + 1) {
                    if let Target::Mod(l2) = t {
                        if &l2 != loc {
                            out.extend(self.lookup(&l2, name, depth + 1, false));
                        }
                    }
                }
            }
        }
        if out.is_empty() && first_segment {
            if name == "pest_typed" {
                out.push(Target::Mod((1, vec![])));
            } else if EXTERN.contains(&name) {
                out.push(Target::External(vec![name.to_string()]));
            }
        }
        out
    }

    fn resolve(&self, from: &Loc, segs: &[String], leading: bool, depth: usize) -> Vec<Target> {
        if segs.is_empty() || depth > 40 {
            return vec![];
        }
        let mut cur: Vec<Target>;
        let mut i = 0;
        if leading {
            if segs[0] == "pest_typed" {
                cur = vec![Target::Mod((1, vec![]))];
            } else {
                cur = vec![Target::External(vec![segs[0].clone()])];
            }
            i = 1;
        } else {
            let mut loc = from.clone();
            let mut moved = false;
            while i < segs.len() {
                match segs[i].as_str() {
                    "super" => {
                        if loc.1.pop().is_none() {
                            return vec![];
                        }
                    }
                    "crate" => loc.1.clear(),
                    "self" => {}
                    _ => break,
                }
                moved = true;
                i += 1;
            }
            if i == segs.len() {
                return vec![Target::Mod(loc)];
            }
            cur = self.lookup(&loc, &segs[i], depth, !moved);
            i += 1;
        }
        while i < segs.len() {
            let mut next = vec![];
            for t in &cur {
                match t {
                    Target::Mod(l2) => next.extend(self.lookup(l2, &segs[i], depth, false)),
                    Target::External(p) => {
                        let mut p = p.clone();
                        p.push(segs[i].clone());
                        next.push(Target::External(p));
                    }
                    _ => {}
                }
            }
            cur = next;
            i += 1;
        }
        cur
    }

    // --------------------------------------------------------------------------------------------
    // evaluation of type expressions

    fn flag_sx(&self, t: &Term) -> Result<Sx, String> {
        match t {
            Term::Const(Cv::Int(0)) => Ok(a("0")),
            Term::Const(Cv::Int(1)) => Ok(a("1")),
            Term::Const(Cv::Ident(s)) if s == "INHERITED" => Ok(a("INHERITED")),
            other => Err(format!("skip-flag:{:?}", other)),
        }
    }

    fn node_of(&self, t: Term) -> Sx {
        match t {
            Term::Node(s) => s,
            Term::Bad(m) => unsupported(&m),
            other => unsupported(&format!("not-a-node:{:?}", other)),
        }
    }

    fn eval_const_expr(&self, e: &syn::Expr, env: &HashMap<String, Term>) -> Term {
        match e {
            syn::Expr::Lit(x) => match &x.lit {
                syn::Lit::Int(i) => match i.base10_parse::<i128>() {
                    Ok(v) => Term::Const(Cv::Int(v)),
                    Err(_) => Term::Bad(format!("int:{}", i)),
                },
                syn::Lit::Char(c) => Term::Const(Cv::Char(c.value() as u32)),
                other => Term::Bad(format!("literal:{}", other.to_token_stream())),
            },
            syn::Expr::Unary(u) if matches!(u.op, syn::UnOp::Neg(_)) => match self.eval_const_expr(&u.expr, env) {
                Term::Const(Cv::Int(v)) => Term::Const(Cv::Int(-v)),
                other => Term::Bad(format!("neg:{:?}", other)),
            },
            syn::Expr::Path(p) if p.path.segments.len() == 1 && p.qself.is_none() => {
                let n = unraw(&p.path.segments[0].ident);
                env.get(&n).cloned().unwrap_or_else(|| Term::Bad(format!("const:{}", n)))
            }
            syn::Expr::Block(b) if b.block.stmts.len() == 1 => match &b.block.stmts[0] {
                syn::Stmt::Expr(e, None) => self.eval_const_expr(e, env),
                _ => Term::Bad(format!("const:{}", e.to_token_stream())),
            },
            syn::Expr::Paren(p) => self.eval_const_expr(&p.expr, env),
            syn::Expr::Group(g) => self.eval_const_expr(&g.expr, env),
            other => Term::Bad(format!("const:{}", other.to_token_stream())),
        }
    }

    fn eval(&self, at: &Loc, ty: &syn::Type, env: &HashMap<String, Term>, depth: usize) -> Term {
        if depth > 60 {
            return Term::Bad("alias-depth".into());
        }
        match ty {
            syn::Type::Paren(p) => self.eval(at, &p.elem, env, depth),
            syn::Type::Group(g) => self.eval(at, &g.elem, env, depth),
            syn::Type::Tuple(t) if t.elems.len() == 2 => {
                let x = self.node_of(self.eval(at, &t.elems[0], env, depth + 1));
                let y = self.node_of(self.eval(at, &t.elems[1], env, depth + 1));
                Term::Node(l("pair", vec![x, y]))
            }
            syn::Type::Array(arr) => {
                let x = self.node_of(self.eval(at, &arr.elem, env, depth + 1));
                match self.eval_const_expr(&arr.len, env) {
                    Term::Const(Cv::Int(n)) if n >= 0 => Term::Node(l("array", vec![a(&n.to_string()), x])),
                    other => Term::Bad(format!("array-len:{:?}", other)),
                }
            }
            syn::Type::Path(tp) if tp.qself.is_none() => self.eval_path(at, &tp.path, env, depth),
            other => Term::Bad(other.to_token_stream().to_string()),
        }
    }

    fn eval_path(&self, at: &Loc, path: &syn::Path, env: &HashMap<String, Term>, depth: usize) -> Term {
        let text = path.to_token_stream().to_string();
        let n = path.segments.len();
        if n == 1 && path.leading_colon.is_none() && path.segments[0].arguments.is_none() {
            if let Some(t) = env.get(&unraw(&path.segments[0].ident)) {
                return t.clone();
            }
        }
        for (k, s) in path.segments.iter().enumerate() {
            if k + 1 < n && !s.arguments.is_none() {
                return Term::Bad(format!("arguments-on-inner-segment:{}", text));
            }
        }
        // generic arguments of the last segment (lifetimes carry no structure and are dropped)
        let mut args: Vec<Term> = vec![];
        match &path.segments[n - 1].arguments {
            syn::PathArguments::None => {}
            syn::PathArguments::AngleBracketed(ab) => {
                for g in &ab.args {
                    match g {
                        syn::GenericArgument::Lifetime(_) => {}
                        syn::GenericArgument::Type(t) => args.push(self.eval(at, t, env, depth + 1)),
                        syn::GenericArgument::Const(e) => args.push(self.eval_const_expr(e, env)),
                        other => return Term::Bad(format!("generic-argument:{}", other.to_token_stream())),
                    }
                }
            }
            other => return Term::Bad(format!("path-arguments:{}", other.to_token_stream())),
        }
        let segs: Vec<String> = path.segments.iter().map(|s| unraw(&s.ident)).collect();
        let targets = self.resolve(at, &segs, path.leading_colon.is_some(), 0);
        if targets.is_empty() {
            return Term::Bad(format!("unresolved:{}", text));
        }
        let mut results: Vec<Term> = vec![];
        for t in targets {
            let r = self.apply(&t, &args, &text, depth);
            if !results.contains(&r) {
                results.push(r);
            }
        }
        if results.len() == 1 {
            results.pop().unwrap()
        } else {
            Term::Bad(format!("ambiguous:{}", text))
        }
    }

    fn rule_index(&self, name: &str) -> Option<usize> {
        self.rule_enum.iter().position(|v| v == name)
    }

    /// The `Rule` variant a `rule!` passes as `$rule` (its last path segment), provided the prefix names the enum.
    fn rule_variant(&self, at: &Loc, r: &RuleMac) -> Result<String, String> {
        let text = r.rule_expr.to_token_stream().to_string();
        if let syn::Expr::Path(p) = &r.rule_expr {
            let segs: Vec<String> = p.path.segments.iter().map(|s| unraw(&s.ident)).collect();
            if segs.len() >= 2 && p.qself.is_none() {
                let t = self.resolve(at, &segs[..segs.len() - 1], p.path.leading_colon.is_some(), 0);
                let is_enum = t.len() == 1 && matches!(&t[0], Target::Enum(l, n) if l.0 == 0 && l.1.is_empty() && n == "Rule");
                let ty_ok = match &r.rule_ty {
                    syn::Type::Path(tp) => {
                        let s2: Vec<String> = tp.path.segments.iter().map(|s| unraw(&s.ident)).collect();
                        let t2 = self.resolve(at, &s2, tp.path.leading_colon.is_some(), 0);
                        t2.len() == 1 && matches!(&t2[0], Target::Enum(l, n) if l.0 == 0 && l.1.is_empty() && n == "Rule")
                    }
                    _ => false,
                };
                if is_enum && ty_ok {
                    return Ok(segs[segs.len() - 1].clone());
                }
            }
        }
        Err(format!("rule-id:{}:{}", r.rule_ty.to_token_stream(), text))
    }

    fn apply(&self, t: &Target, args: &[Term], text: &str, depth: usize) -> Term {
        match t {
            Target::Alias(loc, item) => {
                let mut env2: HashMap<String, Term> = HashMap::new();
                let params: Vec<String> = item
                    .generics
                    .params
                    .iter()
                    .filter_map(|p| match p {
                        syn::GenericParam::Lifetime(_) => None,
                        syn::GenericParam::Type(t) => Some(unraw(&t.ident)),
                        syn::GenericParam::Const(c) => Some(unraw(&c.ident)),
                    })
                    .collect();
                if params.len() != args.len() {
                    return Term::Bad(format!("alias-arity:{}", text));
                }
                for (p, x) in params.into_iter().zip(args.iter()) {
                    env2.insert(p, x.clone());
                }
                self.eval(loc, &item.ty, &env2, depth + 1)
            }
            Target::Struct(loc, name) => {
                if loc.0 == 0 {
                    // emitted code: only the string constants are plain structs
                    let m = self.module(loc).unwrap();
                    let ws: Vec<&(String, String, syn::Expr)> = m.wrappers.iter().filter(|(n, _, _)| n == name).collect();
                    if ws.len() == 1 && args.is_empty() {
                        return self.wrapper(&ws[0].1, &ws[0].2);
                    }
                    return Term::Bad(format!("struct:{}", text));
                }
                self.runtime_struct(&loc.1, name, args, text)
            }
            Target::Macro(_, def) => match def {
                MacroDef::Seq(k) => self.mk_seq(*k, args, text),
                MacroDef::Choice(k) => {
                    if args.len() != *k {
                        return Term::Bad(format!("choice-arity:{}", text));
                    }
                    Term::Node(l("choice", args.iter().cloned().map(|x| self.node_of(x)).collect()))
                }
                MacroDef::CharBy(p) => {
                    if args.is_empty() {
                        Term::Node(l("charby", vec![a(p)]))
                    } else {
                        Term::Bad(format!("charby-args:{}", text))
                    }
                }
                MacroDef::RuleEoi(_) => match self.rule_index("EOI") {
                    Some(k) => self.mk_ref(k, args, text),
                    None => Term::Bad("no-EOI-variant".into()),
                },
                MacroDef::Bad(m) => Term::Bad(m.clone()),
            },
            Target::Rule(loc, name) => {
                let m = self.module(loc).unwrap();
                let rs: Vec<&RuleMac> = m.rules.iter().filter(|(n, _)| n == name).map(|(_, r)| r).collect();
                if rs.len() != 1 {
                    return Term::Bad(format!("rule-defined-{}-times:{}", rs.len(), name));
                }
                match self.rule_variant(loc, rs[0]).ok().and_then(|v| self.rule_index(&v)) {
                    Some(k) => self.mk_ref(k, args, text),
                    None => Term::Bad(format!("rule-without-id:{}", name)),
                }
            }
            Target::External(p) => {
                let p: Vec<&str> = p.iter().map(|s| s.as_str()).collect();
                if (p == ["core", "option", "Option"] || p == ["std", "option", "Option"]) && args.len() == 1 {
                    Term::Node(l("opt", vec![self.node_of(args[0].clone())]))
                } else {
                    Term::Bad(format!("external:{}", text))
                }
            }
            Target::Enum(..) | Target::Mod(..) => Term::Bad(format!("not-a-type:{}", text)),
        }
    }

    fn mk_ref(&self, k: usize, args: &[Term], text: &str) -> Term {
        let flag = match args.len() {
            0 => match &self.rule_param {
                Ok((_, d)) => match self.flag_sx(&Term::Const(d.parse::<i128>().map(Cv::Int).unwrap_or(Cv::Ident(d.clone())))) {
                    Ok(f) => f,
                    Err(e) => return Term::Bad(e),
                },
                Err(e) => return Term::Bad(e.clone()),
            },
            1 => match self.flag_sx(&args[0]) {
                Ok(f) => f,
                Err(e) => return Term::Bad(format!("{}:{}", e, text)),
            },
            _ => return Term::Bad(format!("ref-args:{}", text)),
        };
        Term::Node(l("ref", vec![a(&k.to_string()), flag]))
    }

    fn wrapper(&self, tr: &str, e: &syn::Expr) -> Term {
        fn lit_str(e: &syn::Expr) -> Option<String> {
            match e {
                syn::Expr::Lit(x) => match &x.lit {
                    syn::Lit::Str(s) => Some(s.value()),
                    _ => None,
                },
                syn::Expr::Group(g) => lit_str(&g.expr),
                _ => None,
            }
        }
        if tr == "StringWrapper" {
            match lit_str(e) {
                Some(s) => Term::Wrapper(vec![s], false),
                None => Term::Bad(format!("string-constant:{}", e.to_token_stream())),
            }
        } else {
            let mut e = e;
            if let syn::Expr::Reference(r) = e {
                e = &r.expr;
            }
            if let syn::Expr::Array(arr) = e {
                let v: Option<Vec<String>> = arr.elems.iter().map(lit_str).collect();
                if let Some(v) = v {
                    return Term::Wrapper(v, true);
                }
            }
            Term::Bad(format!("string-array-constant:{}", e.to_token_stream()))
        }
    }

    fn unskip(&self, t: &Term, text: &str) -> Result<(Sx, Sx), String> {
        match t {
            Term::Skipped(x, ign, f) => {
                if Some(ign) != self.skipped.as_ref() {
                    return Err(format!("skipper-is-not-generics::Skipped:{}:in:{}", ign, text));
                }
                Ok((x.clone(), f.clone()))
            }
            Term::Bad(m) => Err(m.clone()),
            other => Err(format!("element-not-wrapped-in-Skipped:{:?}", other)),
        }
    }

    fn mk_seq(&self, k: usize, args: &[Term], text: &str) -> Term {
        if args.len() != k {
            return Term::Bad(format!("seq-arity:{}", text));
        }
        let mut items = vec![];
        let mut flag: Option<Sx> = None;
        for x in args {
            match self.unskip(x, text) {
                Ok((n, f)) => {
                    if flag.is_some() && flag.as_ref() != Some(&f) {
                        return Term::Bad(format!("seq-with-mixed-skip-flags:{}", text));
                    }
                    flag = Some(f);
                    items.push(n);
                }
                Err(e) => return Term::Bad(e),
            }
        }
        let mut v = vec![flag.unwrap_or(a("?"))];
        v.extend(items);
        Term::Node(l("seq", v))
    }

    fn runtime_struct(&self, modpath: &[String], name: &str, args: &[Term], text: &str) -> Term {
        let mp: Vec<&str> = modpath.iter().map(|s| s.as_str()).collect();
        let bad = || Term::Bad(format!("arguments-of-{}:{}", name, text));
        let leaf = |k: &str| if args.is_empty() { Term::Node(l(k, vec![])) } else { Term::Bad(format!("arguments-of-{}:{}", name, text)) };
        let usize_of = |t: &Term| match t {
            Term::Const(Cv::Int(v)) if *v >= 0 => Some(*v),
            _ => None,
        };
        if mp == ["predefined_node"] {
            return match name {
                "Str" | "Insens" => match args {
                    [Term::Wrapper(v, false)] => Term::Node(l(if name == "Str" { "str" } else { "insens" }, vec![a(&hex(&v[0]))])),
                    _ => bad(),
                },
                "Skip" => match args {
                    [Term::Wrapper(v, true)] => Term::Node(l("skipuntil", v.iter().map(|s| a(&hex(s))).collect())),
                    _ => bad(),
                },
                "SkipChar" => match args {
                    [x] => match usize_of(x) {
                        Some(v) => Term::Node(l("skipchars", vec![a(&v.to_string())])),
                        None => bad(),
                    },
                    _ => bad(),
                },
                "CharRange" => match args {
                    [Term::Const(Cv::Char(x)), Term::Const(Cv::Char(y))] => Term::Node(l("range", vec![a(&x.to_string()), a(&y.to_string())])),
                    _ => bad(),
                },
                "Positive" | "Negative" | "Push" => match args {
                    [x] => Term::Node(l(
                        match name {
                            "Positive" => "pos",
                            "Negative" => "neg",
                            _ => "push",
                        },
                        vec![self.node_of(x.clone())],
                    )),
                    _ => bad(),
                },
                "ANY" => leaf("any"),
                "SOI" => leaf("soi"),
                "EOI" => leaf("eoi"),
                "NEWLINE" => leaf("newline"),
                "PEEK" => leaf("peek"),
                "PEEK_ALL" => leaf("peekall"),
                "POP" => leaf("pop"),
                "POP_ALL" => leaf("popall"),
                "DROP" => leaf("drop"),
                "AlwaysFail" => leaf("alwaysfail"),
                "Empty" => leaf("empty"),
                "Skipped" => match args {
                    [x, ign, f] => match self.flag_sx(f) {
                        Ok(f) => Term::Skipped(self.node_of(x.clone()), self.node_of(ign.clone()), f),
                        Err(e) => Term::Bad(format!("{}:{}", e, text)),
                    },
                    _ => bad(),
                },
                "PeekSlice2" => match args {
                    [Term::Const(Cv::Int(x)), Term::Const(Cv::Int(y))] => Term::Node(l("peekslice", vec![a(&x.to_string()), a(&y.to_string())])),
                    _ => bad(),
                },
                "PeekSlice1" => match args {
                    [Term::Const(Cv::Int(x))] => Term::Node(l("peekslice", vec![a(&x.to_string()), a("-")])),
                    _ => bad(),
                },
                _ => Term::Bad(format!("runtime-struct:{}", text)),
            };
        }
        if mp == ["predefined_node", "repetition"] {
            return match (name, args) {
                ("AtomicRepeat", [x]) => Term::Node(l("atomicrepeat", vec![self.node_of(x.clone())])),
                ("RepeatMin", [x, mn]) => match (self.unskip(x, text), usize_of(mn)) {
                    (Ok((n, f)), Some(mn)) => Term::Node(l("rep", vec![f, a(&mn.to_string()), a("-"), n])),
                    (Err(e), _) => Term::Bad(e),
                    _ => bad(),
                },
                ("RepeatMinMax", [x, mn, mx]) => match (self.unskip(x, text), usize_of(mn), usize_of(mx)) {
                    (Ok((n, f)), Some(mn), Some(mx)) => Term::Node(l("rep", vec![f, a(&mn.to_string()), a(&mx.to_string()), n])),
                    (Err(e), _, _) => Term::Bad(e),
                    _ => bad(),
                },
                _ => Term::Bad(format!("runtime-struct:{}", text)),
            };
        }
        Term::Bad(format!("runtime-struct:{}", text))
    }
}

// ------------------------------------------------------------------------------------------------

fn squeeze(s: &str) -> String {
    s.chars().filter(|c| !c.is_whitespace()).collect()
}

/// `pub struct $name<'i, const INHERITED: ::core::primitive::usize = 1>` in `declare_rule_struct!` (all arms must agree).
fn rule_struct_param(runtime_src: &std::path::Path) -> Result<(String, String), String> {
    let text = std::fs::read_to_string(runtime_src.join("rule.rs")).map_err(|e| format!("rule.rs:{}", e))?;
    let sq = squeeze(&text);
    let key = "pubstruct$name<'i,const";
    let mut found: Vec<(String, String)> = vec![];
    let mut rest = sq.as_str();
    while let Some(p) = rest.find(key) {
        rest = &rest[p + key.len()..];
        let end = rest.find('>').ok_or("declare_rule_struct: no `>`")?;
        let decl = &rest[..end]; // INHERITED:::core::primitive::usize=1
        let (nm, tail) = decl.split_once(':').ok_or("declare_rule_struct: no `:`")?;
        let (_, dflt) = tail.rsplit_once('=').ok_or("declare_rule_struct: no default")?;
        found.push((nm.to_string(), dflt.to_string()));
    }
    found.dedup();
    if found.len() == 1 {
        Ok(found.pop().unwrap())
    } else {
        Err(format!("declare_rule_struct-const-parameter:{:?}", found))
    }
}

fn load_runtime(runtime: &std::path::Path) -> Result<Module, String> {
    let lib = std::fs::read_to_string(runtime.join("lib.rs")).map_err(|e| format!("{}/lib.rs: {}", runtime.display(), e))?;
    let libf = syn::parse_file(&lib).map_err(|e| format!("lib.rs does not parse: {}", e))?;
    Ok(build_module(&libf.items, Some(runtime), false))
}

fn extract(gid: &str, ts: proc_macro2::TokenStream, rt: &Module, rule_param: &Result<(String, String), String>) -> Result<String, String> {
    let file: syn::File = syn::parse2(ts).map_err(|e| format!("generated code does not parse: {}", e))?;
    let generated = build_module(&file.items, None, true);
    let mut w = World { generated, runtime: rt, rule_param: rule_param.clone(), rule_enum: vec![], skipped: None };
    let mut problems: Vec<String> = vec![];
    fn collect(m: &Module, pre: &str, out: &mut Vec<String>) {
        for p in &m.problems {
            out.push(format!("{}{}", pre, p));
        }
        for (n, s) in &m.mods {
            collect(s, &format!("{}{}::", pre, n), out);
        }
    }
    collect(&w.generated, "", &mut problems);
    collect(w.runtime, "pest_typed::", &mut problems);
    let root: Loc = (0, vec![]);
    let enums: Vec<Vec<String>> = w.generated.enums.iter().filter(|(n, _)| n == "Rule").map(|(_, v)| v.clone()).collect();
    if enums.len() != 1 {
        return Err(format!("{} `enum Rule` in the emitted code", enums.len()));
    }
    w.rule_enum = enums[0].clone();
    if w.rule_enum.first().map(|s| s.as_str()) != Some("EOI") {
        problems.push("Rule-enum-does-not-start-with-EOI".into());
    }
    let env0: HashMap<String, Term> = HashMap::new();
    // generics::Skipped<'i>
    let sk_ty: syn::Type = syn::parse_str("generics::Skipped<'i>").unwrap();
    let sk = w.node_of(w.eval(&root, &sk_ty, &env0, 0));
    w.skipped = Some(sk.clone());
    let mut env: HashMap<String, Term> = HashMap::new();
    match &w.rule_param {
        Ok((nm, _)) => {
            env.insert(nm.clone(), Term::Const(Cv::Ident(nm.clone())));
        }
        Err(e) => problems.push(e.clone()),
    }
    let mut out = vec![a("nodegrammar"), a(gid), l("skipped", vec![sk.clone()])];
    let mut seen: Vec<(Loc, String)> = vec![];
    for (k, v) in w.rule_enum.iter().enumerate() {
        if k == 0 && v == "EOI" {
            // rule 0: must be the `rule_eoi!` struct of the rules module
            let t = w.resolve(&root, &["rules".to_string(), "EOI".to_string()], false, 0);
            let ok = t.len() == 1 && matches!(&t[0], Target::Macro(_, MacroDef::RuleEoi(_)));
            if !ok {
                problems.push("rules::EOI-is-not-rule_eoi!".into());
            }
            continue;
        }
        let t = w.resolve(&root, &["rules".to_string(), v.clone()], false, 0);
        let rl: Vec<(Loc, String)> = t.iter().filter_map(|t| if let Target::Rule(l, n) = t { Some((l.clone(), n.clone())) } else { None }).collect();
        if rl.len() != 1 || t.len() != 1 {
            out.push(l("rule", vec![a(v), a("?"), a("?"), a("?"), unsupported(&format!("rules::{}-resolves-to-{}-rule!-invocations", v, rl.len()))]));
            continue;
        }
        let (loc, name) = rl[0].clone();
        let m = w.module(&loc).unwrap();
        let defs: Vec<&RuleMac> = m.rules.iter().filter(|(n, _)| *n == name).map(|(_, r)| r).collect();
        if defs.len() != 1 {
            out.push(l("rule", vec![a(v), a("?"), a("?"), a("?"), unsupported(&format!("{}-defined-{}-times", v, defs.len()))]));
            continue;
        }
        let r = defs[0];
        seen.push((loc.clone(), name.clone()));
        match w.rule_variant(&loc, r) {
            Ok(var) if &var == v => {}
            Ok(var) => problems.push(format!("rule-struct-{}-records-Rule::{}", v, var)),
            Err(e) => problems.push(e),
        }
        let ign = w.node_of(w.eval(&loc, &r.ignored, &env, 0));
        if ign != sk {
            problems.push(format!("rule-{}-skips-{}-instead-of-generics::Skipped", v, ign));
        }
        let body = w.node_of(w.eval(&loc, &r.inner, &env, 0));
        out.push(l("rule", vec![a(&r.name), a(&atomise(&r.atom)), a(&atomise(&r.emit)), a(&atomise(&r.boxed)), body]));
    }
    // rule! invocations that are not variants of the enum
    fn all_rules(m: &Module, loc: Loc, out: &mut Vec<(Loc, String)>) {
        for (n, _) in &m.rules {
            out.push((loc.clone(), n.clone()));
        }
        for (n, s) in &m.mods {
            let mut p = loc.1.clone();
            p.push(n.clone());
            all_rules(s, (loc.0, p), out);
        }
    }
    let mut every = vec![];
    all_rules(&w.generated, root.clone(), &mut every);
    for e in every {
        if !seen.contains(&e) {
            problems.push(format!("rule!-outside-the-Rule-enum:{}", e.1));
        }
    }
    for p in problems {
        out.push(l("problem", vec![a(&atomise(&p))]));
    }
    Ok(Sx::L(out).to_string())
}

fn main() {
    std::panic::set_hook(Box::new(|_| {}));
    let runtime = std::path::PathBuf::from(std::env::var("TGEN_RUNTIME_SRC").unwrap_or_else(|_| "/repo/main/src".into()));
    let dump = std::env::var("TGEN_DUMP").is_ok();
    let rt = load_runtime(&runtime);
    let rule_param = rule_struct_param(&runtime);
    let out = io::stdout();
    let mut out = out.lock();
    for line in io::stdin().lock().lines() {
        let line = line.unwrap();
        let f: Vec<&str> = line.split('\t').collect();
        if f.len() < 2 {
            continue;
        }
        let gid = f[0].to_string();
        let text = unhex(f[1]);
        let attrs = unhex(f.get(2).copied().unwrap_or("-"));
        let src = format!("#[grammar_inline = {:?}]\n{}\n#[no_warnings]\nstruct P;", text, attrs);
        let res = std::panic::catch_unwind(move || {
            let input = proc_macro2::TokenStream::from_str(&src).expect("derive input does not lex");
            pest_typed_generator::derive_typed_parser(input, false, false)
        });
        match res {
            Ok(ts) => {
                if dump {
                    writeln!(out, "{}\tTOKENS\t{}", gid, ts).unwrap();
                }
                let g2 = gid.clone();
                let r = match &rt {
                    Ok(rt) => std::panic::catch_unwind(std::panic::AssertUnwindSafe(|| extract(&g2, ts, rt, &rule_param))),
                    Err(e) => Ok(Err(e.clone())),
                };
                match r {
                    Ok(Ok(s)) => writeln!(out, "{}\tOK\t{}", gid, s).unwrap(),
                    Ok(Err(e)) => writeln!(out, "{}\tERR\t{}", gid, hex(&e)).unwrap(),
                    Err(_) => writeln!(out, "{}\tERR\t{}", gid, hex("extractor panicked")).unwrap(),
                }
            }
            Err(e) => {
                let msg = e.downcast_ref::<String>().cloned().or_else(|| e.downcast_ref::<&str>().map(|s| s.to_string())).unwrap_or_default();
                writeln!(out, "{}\tPANIC\t{}", gid, hex(&msg)).unwrap()
            }
        }
    }
}
