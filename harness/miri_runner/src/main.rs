//! Miri support run for C09 (SUPPORT, not proof): ~30 varied parses through the generated parser under the
//! Miri interpreter, which reports undefined behaviour (out-of-bounds `get_unchecked`, slicing a `str` off a
//! character boundary through an unchecked path, invalid references) that the differential suites can only
//! see when it changes an output.  Every case runs an entry point on a `&str`, a `Position` or a `Span`
//! sub-input, renders the error on failure, and on success takes the text of the rule span and the Debug
//! rendering of the tree (which takes the text of every span in it).
//!
//!   miri_runner            run all cases, one line `case\t<name>\t<ok|panic|bad:..>[\t<result>]` each (flushed)
//!   miri_runner --list     print the case names
//!   miri_runner <name>..   run the named cases only
#![allow(warnings)]
use pest_typed::{AsInput, ParsableTypedNode, Position, Span, Spanned};
use std::io::Write;

mod g {
    use pest_typed_derive::TypedParser;
    #[derive(TypedParser)]
    #[grammar_inline = r##"
WHITESPACE = _{ " " | "\t" }
COMMENT    = _{ "/*" ~ (!"*/" ~ ANY)* ~ "*/" }
word       = @{ ('a'..'z' | 'à'..'ÿ' | "中" | "😀")+ }
ins        =  { ^"sélect" ~ word }
lines      =  { word ~ (NEWLINE ~ word)* }
any3       = @{ ANY ~ ANY ~ ANY }
quoted     = ${ "\"" ~ inner ~ "\"" }
inner      = @{ (!"\"" ~ ANY)* }
push_pop   =  { PUSH(word) ~ "=" ~ PEEK ~ "=" ~ POP }
slices     =  { PUSH("a" | "é") ~ PUSH("b" | "中") ~ PUSH("c" | "😀") ~ PEEK[0..2] ~ PEEK[-2..] ~ PEEK_ALL ~ PEEK[1..1] ~ POP_ALL }
oob        =  { PUSH("a") ~ (PEEK[1..3] | PEEK[-5..] | "z") }
dropped    =  { PUSH("é") ~ DROP ~ (POP | DROP | "z") }
until      =  { (!("end" | "fin") ~ ANY)* ~ ("end" | "fin") }
soi_eoi    =  { SOI ~ word? ~ EOI }
preds      =  { !"x" ~ &word ~ word ~ !ANY }
rep        =  { ("é" | "ab"){2,3} ~ "中"* ~ ("x" ~ "y")? }
uni        =  { LETTER+ ~ NUMBER* }
nested     =  { "(" ~ (nested | word)* ~ ")" }
"##]
    pub struct P;
}
use g::{rules, Rule};

fn finish<'i, N: Spanned<'i, Rule> + core::fmt::Debug>(node: &N) -> usize {
    // text of the rule span + Debug of the tree (slices every span)
    node.span().as_str().len() + format!("{:?}", node).len()
}

fn run<'i, N: ParsableTypedNode<'i, Rule> + Spanned<'i, Rule> + core::fmt::Debug>(entry: &str, form: &str, a: usize, b: usize, input: &'i str) -> String {
    fn go<'i, A: AsInput<'i>, N: ParsableTypedNode<'i, Rule> + Spanned<'i, Rule> + core::fmt::Debug>(entry: &str, x: A) -> String {
        use pest_typed::Input;
        match entry {
            "parse" => match N::try_parse(x) { Ok(n) => format!("ok:{}", finish(&n)), Err(e) => format!("err:{}", format!("{}", e).len()) },
            "check" => match N::try_check(x) { Ok(()) => "ok".into(), Err(e) => format!("err:{}", format!("{}", e).len()) },
            "parse_partial" => match N::try_parse_partial(x) { Ok((i, n)) => format!("ok:{}:{}", i.byte_offset(), finish(&n)), Err(e) => format!("err:{}", format!("{}", e).len()) },
            "check_partial" => match N::try_check_partial(x) { Ok(i) => format!("ok:{}", i.byte_offset()), Err(e) => format!("err:{}", format!("{}", e).len()) },
            _ => "badentry".into(),
        }
    }
    match form {
        "str" => go::<_, N>(entry, input),
        "pos" => go::<_, N>(entry, Position::new(input, a).expect("case table: bad position")),
        "span" => go::<_, N>(entry, Span::new(input, a, b).expect("case table: bad span")),
        _ => "badform".into(),
    }
}

type Case = (&'static str, fn() -> String);

macro_rules! cases {
    ($( $name:ident : $rule:ident, $entry:literal, $form:literal, $a:expr, $b:expr, $input:expr ; )*) => {
        const CASES: &[Case] = &[ $( (stringify!($name), || run::<rules::$rule<'static>>($entry, $form, $a, $b, $input)), )* ];
    };
}

cases! {
    word_multibyte      : word,     "parse",         "str",  0, 0,  "aé中😀z";
    word_partial_stop   : word,     "parse_partial", "str",  0, 0,  "éa B";
    word_fail_render    : word,     "parse",         "str",  0, 0,  "é\r\n中 Q";
    word_pos_mid        : word,     "parse_partial", "pos",  3, 0,  "中éa😀!";
    word_span_cut       : word,     "parse",         "span", 3, 6,  "中éa😀";
    word_span_cut_short : word,     "check",         "span", 0, 3,  "中éa😀";
    ins_upper           : ins,      "parse",         "str",  0, 0,  "SéLECT  中é";
    ins_boundary_probe  : ins,      "check_partial", "str",  0, 0,  "sel中ct x";
    ins_short           : ins,      "parse",         "str",  0, 0,  "sé";
    ins_span            : ins,      "parse_partial", "span", 1, 12, "xsélect é 中";
    lines_crlf          : lines,    "parse",         "str",  0, 0,  "a\r\né\n中\rz";
    lines_cr_at_span_end: lines,    "parse_partial", "span", 0, 2,  "a\r\nb";
    any3_multibyte      : any3,     "parse",         "str",  0, 0,  "é中😀";
    any3_short          : any3,     "check",         "str",  0, 0,  "😀é";
    any3_pos            : any3,     "parse_partial", "pos",  4, 0,  "😀abc";
    quoted_ok           : quoted,   "parse",         "str",  0, 0,  "\"é 中 /*\"";
    quoted_unterminated : quoted,   "parse",         "str",  0, 0,  "\"é中";
    push_pop_ok         : push_pop, "parse",         "str",  0, 0,  "é中 = é中 =é中";
    push_pop_mismatch   : push_pop, "parse",         "str",  0, 0,  "é中=é=é中";
    push_pop_span       : push_pop, "parse_partial", "span", 2, 13, "xxaé=aé=aéyy";
    slices_ok           : slices,   "parse",         "str",  0, 0,  "é中😀é中中😀😀中é😀中é";
    slices_ascii        : slices,   "check",         "str",  0, 0,  "abcabbccbacba";
    slices_fail_mid     : slices,   "parse_partial", "str",  0, 0,  "é中😀é中x";
    oob_special         : oob,      "parse",         "str",  0, 0,  "aq";
    dropped_empty_stack : dropped,  "parse",         "str",  0, 0,  "éq";
    until_multibyte     : until,    "parse",         "str",  0, 0,  "é中 😀 fin";
    until_span_hides    : until,    "parse_partial", "span", 0, 7,  "é中end";
    until_missing       : until,    "check",         "pos",  2, 0,  "é中😀";
    soi_pos             : soi_eoi,  "parse",         "pos",  2, 0,  "éab";
    soi_span_empty      : soi_eoi,  "parse",         "span", 2, 2,  "éab";
    preds_ok            : preds,    "parse",         "str",  0, 0,  "中é";
    preds_trailing      : preds,    "parse",         "str",  0, 0,  "中é!";
    rep_bounds          : rep,      "parse",         "str",  0, 0,  "é ab é 中中 x y";
    rep_too_few         : rep,      "parse_partial", "str",  0, 0,  "é中";
    uni_letters         : uni,      "parse",         "str",  0, 0,  "éЖ中 ٣4";
    nested_deep         : nested,   "parse",         "str",  0, 0,  "((é)(中(😀)) /* c */ (a))";
    nested_unclosed     : nested,   "parse",         "str",  0, 0,  "((é)(中";
}

fn main() {
    let args: Vec<String> = std::env::args().skip(1).collect();
    if args.first().map(|s| s.as_str()) == Some("--list") {
        for (n, _) in CASES { println!("{}", n); }
        return;
    }
    let out = std::io::stdout();
    for (name, f) in CASES {
        if !args.is_empty() && !args.iter().any(|a| a == name) { continue; }
        let r = std::panic::catch_unwind(|| f());
        let verdict = match r { Ok(s) => { if s.starts_with("ok") || s.starts_with("err") { format!("ok\t{}", s) } else { format!("bad:{}", s) } }, Err(_) => "panic".to_string() };
        let mut o = out.lock();
        let _ = writeln!(o, "case\t{}\t{}", name, verdict);
        let _ = o.flush();
    }
}
